"""Sidecar contracts for the compiler's offset counter, source-map builder and post-passes (C03, C01, C08, C10, C07)."""
from pyvc.spec import Registry

U = "explorerscript.ssb_converting.compiler.utils"
SM = "explorerscript.source_map"
LJR = "explorerscript.ssb_converting.compiler.label_jump_to_remover"


def register(reg: Registry) -> None:
    reg.load_module("explorerscript.ssb_converting.ssb_special_ops")
    reg.load_module("explorerscript.ssb_converting.ssb_data_types")
    reg.fields({"Counter.count": "int"})
    # ------------------------------------------------------------------ Counter: monotone allocator of op offsets (C03)
    # "returns numbers > old(count); count strictly increases; ranges handed out are disjoint from everything before":
    # every number ever returned is <= count at that time, every new number is > old(count).
    reg.contract(U + ":Counter.__call__", types={"self": "Counter"}, returns="int",
                 ensures=["result == old(self.count) + 1", "self.count == result", "result > old(self.count)"],
                 modifies=["self.count"], canaries=["result == old(self.count)"], properties=["C03", "C08"])
    reg.contract(U + ":Counter.allocate", types={"self": "Counter", "how_many": "int"}, returns="int",
                 requires=["how_many >= 0"],
                 ensures=["result == old(self.count) + 1", "self.count == old(self.count) + how_many",
                          # the allocated block result .. result+how_many-1 lies strictly above everything handed out before
                          "all_int(lambda k: implies(result <= k and k < result + how_many, k > old(self.count) and k <= self.count))"],
                 modifies=["self.count"], canaries=["self.count == old(self.count) + 1"], properties=["C03"])
    reg.contract(U + ":Counter.next_id", types={"self": "Counter"}, returns="int",
                 ensures=["result == self.count + 1", "self.count == old(self.count)"], modifies=[], canaries=["result == self.count"], properties=["C03"])
    reg.lemma("Counter_unique", """
def lemma(c: Counter, n: int):
    a = c()
    b = c.allocate(n)
    d = c()
    assert a < b
    assert d >= b + n
    assert a != d
""", types={"c": "Counter", "n": "int", "__module__": U}, requires=["n >= 0"], modifies=["c.count"], properties=["C03"],
              note="numbers handed out by successive calls are pairwise distinct and increasing; numbers of dropped ops are never reused")

    # ------------------------------------------------------------------ SourceMapBuilder (C08)
    reg.contract(SM + ":SourceMapBuilder.add_opcode", types={"self": "SourceMapBuilder", "op_offset": "int", "line_number": "int", "column": "int"},
                 returns="SourceMapBuilder",
                 ensures=["result is self", "op_offset in self._mappings", "fresh(self._mappings[op_offset])", "type_is(self._mappings[op_offset], SourceMapping)",
                          "self._mappings[op_offset].line == line_number", "self._mappings[op_offset].column == column",
                          "all_val(lambda k: implies(k != op_offset, (k in self._mappings) == old(k in self._mappings) and self._mappings[k] is old(self._mappings[k])))"],
                 modifies=["dict(self._mappings)", "alloc"], canaries=["self._mappings[op_offset].line == column"], properties=["C08", "C09"])
    reg.contract(SM + ":SourceMapBuilder.macro_context__push", types={"self": "SourceMapBuilder", "opcode_to_jump_to": "int", "parameter_mapping": "Any"},
                 returns="SourceMapBuilder",
                 ensures=["result is self", "len(self._macro_context__stack) == old(len(self._macro_context__stack)) + 1",
                          "self._macro_context__stack[len(self._macro_context__stack) - 1][0] == opcode_to_jump_to",
                          "self._macro_context__stack[len(self._macro_context__stack) - 1][1] is parameter_mapping",
                          "all_int(lambda j: implies(0 <= j and j < old(len(self._macro_context__stack)), self._macro_context__stack[j] is old(self._macro_context__stack[j])))"],
                 modifies=["list(self._macro_context__stack)", "alloc"], canaries=["len(self._macro_context__stack) == old(len(self._macro_context__stack))"], properties=["C08"])
    reg.contract(SM + ":SourceMapBuilder.macro_context__pop", types={"self": "SourceMapBuilder"}, returns="SourceMapBuilder",
                 ensures=["result is self", "len(self._macro_context__stack) == old(len(self._macro_context__stack)) - 1",
                          "all_int(lambda j: implies(0 <= j and j < len(self._macro_context__stack), self._macro_context__stack[j] is old(self._macro_context__stack[j])))"],
                 raises=[("IndexError", "len(self._macro_context__stack) < 1", True)],
                 modifies=["list(self._macro_context__stack)"], canaries=["len(self._macro_context__stack) == old(len(self._macro_context__stack))"], properties=["C08"])
    reg.contract(SM + ":SourceMapBuilder.next_macro_opcode_called_in", types={"self": "SourceMapBuilder", "if_incl_rel_path": "str | None", "line_number": "int", "column": "int"},
                 returns="SourceMapBuilder",
                 ensures=["result is self", "fresh(self._next_macro_called_in)", "len(typed(self._next_macro_called_in, 'tuple[Any, int, int]')) == 3",
                          "typed(self._next_macro_called_in, 'tuple[Any, int, int]')[0] is if_incl_rel_path",
                          "typed(self._next_macro_called_in, 'tuple[Any, int, int]')[1] == line_number", "typed(self._next_macro_called_in, 'tuple[Any, int, int]')[2] == column"],
                 modifies=["self._next_macro_called_in", "alloc"], properties=["C08"])
    reg.contract(SM + ":SourceMapBuilder.add_macro_opcode",
                 types={"self": "SourceMapBuilder", "op_offset": "int", "if_incl_rel_path": "str | None", "macro_name": "str", "line_number": "int", "column": "int"},
                 returns="SourceMapBuilder",
                 raises=[("ValueError", "len(self._macro_context__stack) < 1", True)],
                 ensures=["result is self", "op_offset in self._mappings_macros",
                          "fresh(self._mappings_macros[op_offset])", "type_is(self._mappings_macros[op_offset], MacroSourceMapping)",
                          "self._mappings_macros[op_offset].relpath_included_file is if_incl_rel_path",
                          "self._mappings_macros[op_offset].macro_name == macro_name",
                          "self._mappings_macros[op_offset].line == line_number", "self._mappings_macros[op_offset].column == column",
                          # entry takes the return address and parameter mapping on top of the macro context stack
                          "self._mappings_macros[op_offset].return_addr is old(self._macro_context__stack[len(self._macro_context__stack) - 1][0])",
                          "self._mappings_macros[op_offset].parameter_mapping is old(self._macro_context__stack[len(self._macro_context__stack) - 1][1])",
                          # the pending call position is consumed exactly once
                          "self._mappings_macros[op_offset].called_in is old(self._next_macro_called_in)",
                          "is_none(self._next_macro_called_in)",
                          "all_val(lambda k: implies(k != op_offset, (k in self._mappings_macros) == old(k in self._mappings_macros) and self._mappings_macros[k] is old(self._mappings_macros[k])))"],
                 modifies=["dict(self._mappings_macros)", "self._next_macro_called_in", "alloc"],
                 canaries=["self._mappings_macros[op_offset].called_in is self._next_macro_called_in and not is_none(old(self._next_macro_called_in))"],
                 # C14: `fresh(...)` is what establishes rewrite_offsets' precondition "every macro entry is its own object"
                 properties=["C08", "C14"])
    reg.contract(SM + ":SourceMapBuilder.build", types={"self": "SourceMapBuilder"}, returns="SourceMap",
                 ensures=["fresh(result)", "type_is(result, SourceMap)", "result._mappings is self._mappings", "result._position_marks is self._pos_marks",
                          "result._mappings_macros is self._mappings_macros", "result._position_marks_macro is self._pos_marks_macros"],
                 modifies=["alloc"], canaries=["result._mappings is self._mappings_macros"], properties=["C08", "C09"])
