"""Native monitors for LabelFinalizer (run-time form of contracts/label_finalizer.py plus the clauses left to run time:
what is dropped, order, label offsets)."""
import random

from explorerscript.ssb_converting.compiler.label_finalizer import LabelFinalizer
from explorerscript.ssb_converting.ssb_data_types import SsbOperation, SsbOpCode
from explorerscript.ssb_converting.ssb_special_ops import SsbLabel, SsbLabelJump

LF = "explorerscript.ssb_converting.compiler.label_finalizer"
NAMES = ["op", "Return", "End", "Hold", "lives", "object", "performer", "Wait"]


def gen(rng: random.Random):
    routines = []
    off = 0
    lid = 0
    for r_id in range(rng.randint(0, 3)):
        labels = []
        for _ in range(rng.randint(0, 3)):
            labels.append(SsbLabel(lid, r_id))
            lid += 1
        pending = list(labels)
        rng.shuffle(pending)
        r = []
        for _ in range(rng.randint(0, 7)):
            k = rng.random()
            if k < 0.35 and labels:
                off += 1
                root = SsbOperation(off, SsbOpCode(-1, rng.choice(["Jump", "Jump", "Branch", "Call", "CaseValue"])), [])
                r.append(SsbLabelJump(root, rng.choice(labels)))
            elif k < 0.6 and pending:
                r.append(pending.pop())  # each label object is placed at most once
            else:
                off += 1
                r.append(SsbOperation(off, SsbOpCode(-1, rng.choice(NAMES)), []))
        # the compiler never hands over a routine that ends in a label (strip_last_label); end with an op
        off += 1
        r.append(SsbOperation(off, SsbOpCode(-1, "Return"), []))
        routines.append(r)
    return {"routines": routines}


def monitor(args):
    routines = args["routines"]
    before = [list(r) for r in routines]
    offsets_before = {id(op): op.offset for r in routines for op in r if not isinstance(op, SsbLabel)}
    lf = LabelFinalizer(routines)
    if [list(r) for r in routines] != before:
        return "the input routine lists were changed"
    if len(lf.routines) != len(before):
        return f"{len(lf.routines)} routines out for {len(before)} in"
    for r_in, r_out in zip(before, lf.routines):
        # order kept, nothing added: r_out is a subsequence of r_in (by identity)
        it = iter(r_in)
        for op in r_out:
            for cand in it:
                if cand is op:
                    break
            else:
                return "the output routine is not a subsequence of the input routine"
        kept = {id(op) for op in r_out}
        for i, op in enumerate(r_in):
            if id(op) in kept:
                continue
            if not (isinstance(op, SsbLabelJump) and op.root.op_code.name == "Jump"):
                return f"an operation that is not a plain jump was dropped: {type(op).__name__}"
            # a dropped jump goes to a label that follows it with nothing but labels / dropped jumps in between
            j = i + 1
            found = False
            while j < len(r_in) and (isinstance(r_in[j], SsbLabel) or id(r_in[j]) not in kept):
                if r_in[j] is op.label:
                    found = True
                j += 1
            if not found:
                return "a jump was dropped although its label does not follow it directly"
            if i > 0 and r_in[i - 1].op_code.name in ("lives", "object", "performer"):
                return "the operation after a context operation was dropped"
    for r in before:
        for op in r:
            if not isinstance(op, SsbLabel) and op.offset != offsets_before[id(op)]:
                return "the offset of a real operation was changed"
    # every label points at the next kept real operation (across routine borders as the code does)
    flat = [op for r in lf.routines for op in r]
    for i, op in enumerate(flat):
        if isinstance(op, SsbLabel):
            nxt = next((o for o in flat[i + 1:] if not isinstance(o, SsbLabel)), None)
            if nxt is not None:
                if op.offset != nxt.offset or lf.label_offsets.get(op.id) != nxt.offset:
                    return f"label {op.id}: offset {op.offset} / table {lf.label_offsets.get(op.id)}, next operation is at {nxt.offset}"
    return None


def rep(args):
    def d(op):
        if isinstance(op, SsbLabel):
            return f"L{op.id}"
        if isinstance(op, SsbLabelJump):
            return f"J({op.root.op_code.name}@{op.root.offset}->L{op.label.id})"
        return f"{op.op_code.name}@{op.offset}"

    return repr([[d(o) for o in r] for r in args["routines"]])


def gen_after(rng: random.Random):
    a = gen(rng)
    rs = [r for r in a["routines"] if r]
    r = rng.choice(rs) if rs else []
    return {"cls": LabelFinalizer, "r": r, "op_i": rng.randint(0, max(0, len(r))), "skip_redundant_label_jumps": rng.random() < 0.7}


def monitor_after(args):
    r, op_i = args["r"], args["op_i"]
    before = list(r)
    res = LabelFinalizer._labels_after(r, op_i, args["skip_redundant_label_jumps"])
    if list(r) != before:
        return "_labels_after changed its argument"
    if not all(isinstance(x, SsbLabel) for x in res):
        return "_labels_after returned something that is not a label"
    it = iter(r[op_i + 1:])
    for x in res:
        for cand in it:
            if cand is x:
                break
        else:
            return "the result is not a subsequence of the operations behind op_i"
    return None


def rep_after(args):
    return rep({"routines": [args["r"]]}) + f" op_i={args['op_i']} skip={args['skip_redundant_label_jumps']}"


NATIVE = {
    LF + ":LabelFinalizer.__init__": {"gen": gen, "monitor": monitor, "repr": rep},
    LF + ":LabelFinalizer._labels_after": {"gen": gen_after, "monitor": monitor_after, "repr": rep_after},
}
