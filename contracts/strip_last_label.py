"""Sidecar contract for strip_last_label (C10 safety, C03 table shape).

Only what the deductive layer can carry: exception freedom for every input, one output routine per input routine,
and "no output routine ends in a label".  The behavioural clause (machine(before) ~ machine(after)) is a T3 stage
monitor of C01.
"""
from pyvc.spec import Registry

U = "explorerscript.ssb_converting.compiler.utils"


def register(reg: Registry) -> None:
    reg.load_module("explorerscript.ssb_converting.ssb_special_ops")
    reg.load_module("explorerscript.ssb_converting.ssb_data_types")
    reg.fields({"SsbOperation.offset": "int", "SsbOperation.params": "list[Any]", "SsbOperation.op_code": "SsbOpCode", "SsbNamedId.name": "str", "SsbNamedId.id": "int",
                "SsbLabelJump._root": "SsbOperation | None", "SsbLabelJump.label": "Sub[SsbLabel] | None"})
    reg.contract(
        U + ":strip_last_label", types={"routine_ops": "list[list[Sub[SsbOperation]]]"}, returns="list[list[Sub[SsbOperation]]]",
        requires=[
            "all_int(lambda r, i: implies(0 <= r and r < len(routine_ops) and 0 <= i and i < len(routine_ops[r]) and isinstance(routine_ops[r][i], SsbLabelJump), not is_none(typed(routine_ops[r][i], 'SsbLabelJump')._root)))",
            "all_int(lambda r: implies(0 <= r and r < len(routine_ops), routine_ops[r] is not routine_ops))",
            "all_int(lambda r, q: implies(0 <= r and r < q and q < len(routine_ops), routine_ops[r] is not routine_ops[q]))",
        ],
        # C10: no clause in `raises`: every subscript / del / store is in bounds for every input
        ensures=[
            "fresh(result)",
            # C03: "the routine info, coroutine-name and op tables have the same length": one routine out per routine in
            "len(result) == len(routine_ops)",
            # what the function is for: no routine of the result ends in a label
            "all_int(lambda r: implies(0 <= r and r < len(result) and len(result[r]) > 0, not isinstance(result[r][len(result[r]) - 1], SsbLabel)))",
        ],
        modifies=["*llen", "*lel", "alloc"],
        loops={
            0: dict(invariants=[
                "fresh(returned_routine_ops) and len(returned_routine_ops) == it_i",
                "unchanged_list(routine_ops)",
                "all_int(lambda r: implies(it_i <= r and r < len(routine_ops), unchanged_list(routine_ops[r])))",
                "all_int(lambda r: implies(0 <= r and r < it_i and len(returned_routine_ops[r]) > 0, not isinstance(returned_routine_ops[r][len(returned_routine_ops[r]) - 1], SsbLabel)))",
                "all_int(lambda r: implies(0 <= r and r < it_i, allocated(returned_routine_ops[r]) and returned_routine_ops[r] is not returned_routine_ops and (fresh(returned_routine_ops[r]) or returned_routine_ops[r] is routine_ops[r])))",
            ]),
            1: dict(invariants=[
                "fresh(returned_routine_ops) and loop_unchanged_list(returned_routine_ops)",
                "routine is not returned_routine_ops and routine is not routine_ops",
                "allocated(routine) and (fresh(routine) or routine is routine_ops[it_i])",
                "0 <= it_i and it_i < len(routine_ops)",
                "unchanged_list(routine_ops)",
                "all_int(lambda r: implies(0 <= r and r < len(returned_routine_ops) and len(returned_routine_ops[r]) > 0, not isinstance(returned_routine_ops[r][len(returned_routine_ops[r]) - 1], SsbLabel)))",
                "all_int(lambda r: implies(0 <= r and r < len(returned_routine_ops), allocated(returned_routine_ops[r]) and returned_routine_ops[r] is not returned_routine_ops and returned_routine_ops[r] is not routine))",
                "all_int(lambda i: implies(0 <= i and i < len(routine) and isinstance(routine[i], SsbLabelJump), not is_none(typed(routine[i], 'SsbLabelJump')._root)))",
                "all_int(lambda r: implies(0 <= r and r < len(returned_routine_ops), loop_unchanged_list(returned_routine_ops[r])))",
                "all_int(lambda r: implies(0 <= r and r < len(routine_ops) and r != it_i, loop_unchanged_list(routine_ops[r])))",
            ], types={"routine": "list[Sub[SsbOperation]]"}),
            2: dict(invariants=[
                "fresh(returned_routine_ops) and routine is not returned_routine_ops and routine is not routine_ops",
                "unchanged_list(routine_ops)",
                "loop_unchanged_list(returned_routine_ops)",
                "all_int(lambda r: implies(0 <= r and r < len(returned_routine_ops) and len(returned_routine_ops[r]) > 0, not isinstance(returned_routine_ops[r][len(returned_routine_ops[r]) - 1], SsbLabel)))",
                "all_int(lambda r: implies(0 <= r and r < len(returned_routine_ops), allocated(returned_routine_ops[r]) and returned_routine_ops[r] is not returned_routine_ops and returned_routine_ops[r] is not routine))",
                "all_int(lambda i: implies(0 <= i and i < len(routine) and isinstance(routine[i], SsbLabelJump), not is_none(typed(routine[i], 'SsbLabelJump')._root)))",
                "all_int(lambda r: implies(0 <= r and r < len(returned_routine_ops), loop_unchanged_list(returned_routine_ops[r])))",
                "all_int(lambda r: implies(0 <= r and r < len(routine_ops) and routine_ops[r] is not routine, loop_unchanged_list(routine_ops[r])))",
                "fresh(indices_to_remove)",
            ]),
        },
        canaries=["len(result) == 0"],
        properties=["C10", "C03", "C01"])
