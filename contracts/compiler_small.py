"""Sidecar contracts for small compiler/decompiler helpers that carry parts of C01, C04, C08, C10."""
from pyvc.spec import Registry

U = "explorerscript.ssb_converting.compiler.utils"
DT = "explorerscript.ssb_converting.ssb_data_types"
AB = "explorerscript.ssb_converting.compiler.compile_handlers.abstract"


def register(reg: Registry) -> None:
    reg.load_module("explorerscript.ssb_converting.ssb_special_ops")
    reg.load_module(DT)
    reg.load_module("explorerscript.source_map")
    reg.fields({"SsbOperation.offset": "int", "SsbOperation.params": "list[Any]", "SsbOperation.op_code": "SsbOpCode", "SsbNamedId.name": "str", "SsbNamedId.id": "int",
                "SsbLabelJump._root": "SsbOperation | None",
                "CompilerCtx._loops": "list[Any]", "CompilerCtx._switch_cases": "list[Any]", "CompilerCtx.counter_ops": "Counter",
                "CompilerCtx.source_map_builder": "SourceMapBuilder", "Counter.count": "int",
                "SsbLabelJumpBlueprint.compiler_ctx": "CompilerCtx", "SsbLabelJumpBlueprint.number": "int | None",
                "SsbLabelJumpBlueprint.op_code_name": "str", "SsbLabelJumpBlueprint.params": "list[Any]", "SsbLabelJumpBlueprint.jump_is_positive": "bool",
                "DungeonModeConstants.open_constant": "str", "DungeonModeConstants.request_constant": "str",
                "DungeonModeConstants.close_constant": "str", "DungeonModeConstants.open_and_request_constant": "str"})
    # ------------------------------------------------------------------ flow-ending ops (C01 machine model: Return, End, Hold, Jump... stop)
    reg.spec_fn("ends_flow", ["name"], "name in OPS_THAT_END_CONTROL_FLOW")
    reg.contract(U + ":does_op_end_control_flow", types={"op": "Sub[SsbOperation]", "previous_op": "Sub[SsbOperation] | None"}, returns="bool",
                 requires=["implies(isinstance(op, SsbLabelJump), not is_none(typed(op, 'SsbLabelJump')._root))"],
                 ensures=[
                     # an op right after a context op (lives/object/performer) never ends the flow of the routine
                     "implies(not is_none(previous_op) and previous_op.op_code.name in OPS_CTX, result == False)",
                     "implies(is_none(previous_op) or previous_op.op_code.name not in OPS_CTX, result == ends_flow(ite(isinstance(op, SsbLabelJump), typed(op, 'SsbLabelJump')._root.op_code.name, op.op_code.name)))",
                 ],
                 modifies=[], canaries=["result == ends_flow(op.op_code.name)"], properties=["C01"])
    # ------------------------------------------------------------------ loop / case stacks (C10: stray continue / break_loop / break are rejected)
    for meth, stack, exc_when in (("continue_loop", "_loops", "len(self._loops) < 1"), ("break_loop", "_loops", "len(self._loops) < 1"), ("break_case", "_switch_cases", "len(self._switch_cases) < 1")):
        pass  # these call methods of handler objects (dynamic dispatch into the handlers): only the raise clause is within reach
    reg.contract(U + ":CompilerCtx.add_loop", types={"self": "CompilerCtx", "h": "Any"},
                 ensures=["len(self._loops) == old(len(self._loops)) + 1", "self._loops[len(self._loops) - 1] is h",
                          "all_int(lambda j: implies(0 <= j and j < old(len(self._loops)), self._loops[j] is old(self._loops[j])))"],
                 modifies=["list(self._loops)"], canaries=["len(self._loops) == old(len(self._loops))"], properties=["C10", "C01"])
    reg.contract(U + ":CompilerCtx.remove_loop", types={"self": "CompilerCtx"},
                 raises=[("IndexError", "len(self._loops) < 1", True)],
                 ensures=["len(self._loops) == old(len(self._loops)) - 1", "all_int(lambda j: implies(0 <= j and j < len(self._loops), self._loops[j] is old(self._loops[j])))"],
                 modifies=["list(self._loops)"], canaries=["len(self._loops) == old(len(self._loops))"], properties=["C10", "C01"])
    reg.contract(U + ":CompilerCtx.add_switch_case", types={"self": "CompilerCtx", "h": "Any"},
                 ensures=["len(self._switch_cases) == old(len(self._switch_cases)) + 1", "self._switch_cases[len(self._switch_cases) - 1] is h"],
                 modifies=["list(self._switch_cases)"], canaries=["len(self._switch_cases) == old(len(self._switch_cases))"], properties=["C10", "C01"])
    reg.contract(U + ":CompilerCtx.remove_switch_case", types={"self": "CompilerCtx"},
                 raises=[("IndexError", "len(self._switch_cases) < 1", True)],
                 ensures=["len(self._switch_cases) == old(len(self._switch_cases)) - 1"],
                 modifies=["list(self._switch_cases)"], canaries=["len(self._switch_cases) == old(len(self._switch_cases))"], properties=["C10", "C01"])
    # ------------------------------------------------------------------ dungeon-mode numbers (C04: 0..3 may come back as the configured constant)
    reg.contract(DT + ":DungeonModeConstants.get_explorerscript_constant_for", types={"self": "DungeonModeConstants", "idx": "int"}, returns="str",
                 ensures=["implies(idx == 0, result == self.close_constant)", "implies(idx == 1, result == self.open_constant)",
                          "implies(idx == 2, result == self.request_constant)", "implies(idx == 3, result == self.open_and_request_constant)",
                          # any other number is printed as the number itself (so that it reads back as the same value)
                          "implies(idx < 0 or idx > 3, result == str(idx))"],
                 modifies=[], canaries=["implies(idx == 3, result == self.close_constant)"], properties=["C04"])
    register_sourcemap_sites(reg)
    register_ordered(reg)


def register_sourcemap_sites(reg: Registry) -> None:
    """C08: registration of each generated op at ctx.start (line - 1, column)."""
    reg.opaque_class("Token", {"line": "int", "column": "int"})
    reg.opaque_class("ParserRuleContext", {"start": "Token"})
    reg.fields({"SsbLabelJumpBlueprint.ctx": "ParserRuleContext", "AbstractCompileHandler.ctx": "ParserRuleContext", "AbstractCompileHandler.compiler_ctx": "CompilerCtx"})
    SMB = "self.compiler_ctx.source_map_builder"
    reg.contract(
        U + ":SsbLabelJumpBlueprint.build_for", types={"self": "SsbLabelJumpBlueprint", "label": "Sub[SsbLabel]"}, returns="SsbLabelJump",
        requires=["not is_none(label)"],
        ensures=[
            "fresh(result)", "type_is(result, SsbLabelJump)", "result.label is label",
            "fresh(result._root)", "result._root.op_code.name == self.op_code_name", "result._root.params is self.params",
            # the op takes the pre-allocated number, or a new one from the counter (exactly one)
            "implies(not is_none(old(self.number)), result._root.offset == old(self.number) and self.compiler_ctx.counter_ops.count == old(self.compiler_ctx.counter_ops.count))",
            "implies(is_none(old(self.number)), result._root.offset == old(self.compiler_ctx.counter_ops.count) + 1 and self.compiler_ctx.counter_ops.count == old(self.compiler_ctx.counter_ops.count) + 1)",
            "result.offset == result._root.offset",
            # source map entry under the number of the op being returned, at the start of the header's context
            f"result._root.offset in {SMB}._mappings",
            f"{SMB}._mappings[result._root.offset].line == self.ctx.start.line - 1",
            f"{SMB}._mappings[result._root.offset].column == self.ctx.start.column",
        ],
        modifies=["self.compiler_ctx.counter_ops.count", f"dict({SMB}._mappings)", "alloc"],
        canaries=[f"{SMB}._mappings[result._root.offset].line == self.ctx.start.line"], properties=["C08", "C03"])
    reg.contract(
        AB + ":AbstractCompileHandler._register_operation", types={"self": "AbstractCompileHandler", "op": "Sub[SsbOperation]"}, returns="Sub[SsbOperation]",
        ensures=["result is op",
                 f"self.compiler_ctx.counter_ops.count in {SMB}._mappings",
                 f"{SMB}._mappings[self.compiler_ctx.counter_ops.count].line == self.ctx.start.line - 1",
                 f"{SMB}._mappings[self.compiler_ctx.counter_ops.count].column == self.ctx.start.column"],
        modifies=[f"dict({SMB}._mappings)", "alloc"], canaries=[f"{SMB}._mappings[self.compiler_ctx.counter_ops.count].column == self.ctx.start.line"], properties=["C08"])
    reg.contract(
        AB + ":AbstractCompileHandler._generate_operation", types={"self": "AbstractCompileHandler", "op_name": "str", "params": "list[Any]"}, returns="SsbOperation",
        ensures=["fresh(result)", "type_is(result, SsbOperation)", "result.op_code.name == op_name", "result.params is params",
                 "result.offset == old(self.compiler_ctx.counter_ops.count) + 1", "self.compiler_ctx.counter_ops.count == result.offset",
                 f"result.offset in {SMB}._mappings", f"{SMB}._mappings[result.offset].line == self.ctx.start.line - 1", f"{SMB}._mappings[result.offset].column == self.ctx.start.column"],
        modifies=["self.compiler_ctx.counter_ops.count", f"dict({SMB}._mappings)", "alloc"],
        canaries=["result.offset == old(self.compiler_ctx.counter_ops.count)"], properties=["C08", "C03"])


def register_ordered(reg: Registry) -> None:
    """C03 mechanism: the (label-insensitive) ordering assertion compile() makes before the post-passes."""
    # flat reading: the offsets other than -1 (labels carry -1) ... the function compares every op with the op before it
    # (labels reset the comparison value to -1), so it returns True iff no op with offset != -1 is <= the offset of the
    # op directly before it (across routine boundaries; the very first op is compared with -1).
    reg.spec_fn("prev_off", ["rs", "r", "i"], "ite(i > 0, rs[r][i - 1].offset, -2)")  # -2: 'no predecessor in this routine' (handled by the invariant)
    reg.contract(
        U + ":routine_op_offsets_are_ordered", types={"routine_ops": "list[list[Sub[SsbOperation]]]"}, returns="bool",
        ensures=[
            # a True answer guarantees strictly increasing offsets inside every label-free stretch of every routine
            "implies(result == True, all_int(lambda r, i: implies(0 <= r and r < len(routine_ops) and 1 <= i and i < len(routine_ops[r]) and routine_ops[r][i].offset != -1, routine_ops[r][i].offset > routine_ops[r][i - 1].offset)))",
            # a False answer has a witness
            "implies(result == False, any_int(lambda r, i: 0 <= r and r < len(routine_ops) and 0 <= i and i < len(routine_ops[r]) and routine_ops[r][i].offset != -1))",
        ],
        modifies=[],
        loops={
            0: dict(invariants=[
                "is_int(last_offset)",
                "all_int(lambda r, i: implies(0 <= r and r < it_i and 1 <= i and i < len(routine_ops[r]) and routine_ops[r][i].offset != -1, routine_ops[r][i].offset > routine_ops[r][i - 1].offset))"]),
            1: dict(invariants=[
                "is_int(last_offset)", "routine is routine_ops[at_loop_entry(it_i)]" if False else "is_int(last_offset)",
                "implies(it_i > 0, last_offset == routine[it_i - 1].offset)",
                "all_int(lambda i: implies(1 <= i and i < it_i and routine[i].offset != -1, routine[i].offset > routine[i - 1].offset))"]),
        },
        canaries=["result == True"], properties=["C03"])
