"""Native monitor for OpsLabelJumpToRemover.__init__ (run-time form of contracts/remover.py)."""
import random

from explorerscript.error import SsbCompilerError
from explorerscript.ssb_converting.compiler.label_jump_to_remover import OpsLabelJumpToRemover
from explorerscript.ssb_converting.ssb_data_types import SsbOperation, SsbOpCode, SsbOpParamConstant
from explorerscript.ssb_converting.ssb_special_ops import SsbLabel, SsbLabelJump

LJR = "explorerscript.ssb_converting.compiler.label_jump_to_remover"


def gen(rng: random.Random):
    nlabels = rng.randint(0, 4)
    labels = [SsbLabel(i, -1) for i in range(nlabels)]
    off = 0
    routines = []
    for _ in range(rng.randint(0, 3)):
        r = []
        for _ in range(rng.randint(0, 5)):
            k = rng.random()
            if k < 0.3 and labels:
                r.append(rng.choice(labels))
            elif k < 0.65 and labels:
                off += 1
                root = SsbOperation(off, SsbOpCode(-1, rng.choice(["Jump", "Call", "Branch", "CaseValue"])), [SsbOpParamConstant("X")] * rng.randint(0, 2))
                r.append(SsbLabelJump(root, rng.choice(labels)))
            else:
                off += 1
                r.append(SsbOperation(off, SsbOpCode(-1, "op"), [rng.randint(0, 9)] * rng.randint(0, 2)))
        routines.append(r)
    offs = {l.id: rng.randint(1, 20) for l in labels if rng.random() < 0.85}
    return {"routines": routines, "label_offsets": offs}


def monitor(args):
    routines, lo = args["routines"], args["label_offsets"]
    before = [list(r) for r in routines]
    old_params = {id(op): list(op.root.params) for r in routines for op in r if isinstance(op, SsbLabelJump)}
    missing = any(isinstance(op, SsbLabelJump) and op.label.id not in lo for r in routines for op in r)
    lo_before = dict(lo)
    try:
        res = OpsLabelJumpToRemover(routines, lo).routines
    except SsbCompilerError as e:
        return None if missing else f"SsbCompilerError although every label is defined: {e}"
    if missing:
        return "no SsbCompilerError although a jump's label has no offset"
    if [list(r) for r in routines] != before or lo != lo_before:
        return "the input routine lists / label offsets were changed"
    if len(res) != len(routines):
        return f"{len(res)} routines out for {len(routines)} in"
    for r_in, r_out in zip(routines, res):
        want = [(op.root if isinstance(op, SsbLabelJump) else op) for op in r_in if not isinstance(op, SsbLabel)]
        if len(want) != len(r_out) or any(a is not b for a, b in zip(want, r_out)):
            return f"output routine is not the input without labels, jumps replaced by their roots, in order: {r_out}"
        for op in r_out:
            if isinstance(op, (SsbLabel, SsbLabelJump)):
                return "a label / label jump pseudo operation remains"
        for op in r_in:
            if isinstance(op, SsbLabelJump):
                if list(op.root.params) != old_params[id(op)] + [lo[op.label.id]]:
                    return f"root params {op.root.params}: expected the old params {old_params[id(op)]} followed by the label's offset {lo[op.label.id]}"
    return None


def rep(args):
    def d(op):
        if isinstance(op, SsbLabel):
            return f"L{op.id}"
        if isinstance(op, SsbLabelJump):
            return f"J({op.root.op_code.name}@{op.root.offset}{[str(p) for p in op.root.params]}->L{op.label.id})"
        return f"{op.op_code.name}@{op.offset}{list(op.params)}"

    return repr(([[d(o) for o in r] for r in args["routines"]], sorted(args["label_offsets"].items())))


NATIVE = {LJR + ":OpsLabelJumpToRemover.__init__": {"gen": gen, "monitor": monitor, "repr": rep}}
