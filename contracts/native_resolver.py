"""Native monitors for the offset -> label resolver contracts."""
import copy
import random

from explorerscript.ssb_converting.decompiler.label_jump_to_resolver import OpsLabelJumpToResolver
from explorerscript.ssb_converting.ssb_data_types import SsbOperation, SsbOpCode, SsbOpParamConstant
from explorerscript.ssb_converting.ssb_special_ops import OPS_WITH_JUMP_TO_MEM_OFFSET, SsbLabel, SsbLabelJump, process_op_for_jump

R = "explorerscript.ssb_converting.decompiler.label_jump_to_resolver"
SO = "explorerscript.ssb_converting.ssb_special_ops"


def g_layout(rng: random.Random):
    """Routine layout as a binary reader numbers it: strictly increasing offsets with gaps; possibly empty routines."""
    nr = rng.randint(1, 4)
    off = rng.randint(0, 2)
    routines = []
    for _ in range(nr):
        n = rng.choice([0, 1, 1, 2, 3])
        ops = []
        for _ in range(n):
            ops.append(off)
            off += rng.randint(1, 3)
        routines.append(ops)
    if not any(routines):
        routines[0] = [off]
    return routines


def ends_of(routines):
    out, prev = [], 0
    for r in routines:
        if r:
            prev = r[-1]
        out.append(prev)
    return out


def gen_end_offsets(rng):
    lay = g_layout(rng)
    return {"self": OpsLabelJumpToResolver([]), "routines": [[SsbOperation(o, SsbOpCode(0, "x"), []) for o in r] for r in lay]}


def mon_end_offsets(args):
    rs = args["routines"]
    res = args["self"]._build_end_offsets(rs)
    if res != ends_of([[o.offset for o in r] for r in rs]):
        return f"end offsets {res} for layout {[[o.offset for o in r] for r in rs]}"
    return None


def gen_jump(rng):
    lay = g_layout(rng)
    allofs = [o for r in lay for o in r]
    rid = rng.choice([i for i, r in enumerate(lay) if r])
    name = rng.choice(sorted(OPS_WITH_JUMP_TO_MEM_OFFSET) + ["Plain", "Wait"])
    idx = OPS_WITH_JUMP_TO_MEM_OFFSET.get(name, 0)
    tgt = rng.choice(allofs)
    params = [SsbOpParamConstant("C%d" % i) if rng.random() < 0.5 else i for i in range(idx)] + [tgt]
    known = {}
    for o in rng.sample(allofs, rng.randint(0, min(3, len(allofs)))):
        r_of = next(i for i, r in enumerate(lay) if o in r)
        known[o] = SsbLabel(len(known) + rng.randint(0, 2) * 0, r_of)
        known[o].id = len(known) - 1
    return {"op": SsbOperation(rng.choice(lay[rid]), SsbOpCode(3, name), params), "known_labels": known, "routine_id": rid, "routine_end_offsets": ends_of(lay), "_layout": lay}


def mon_jump(args):
    op, known, rid, ends = args["op"], args["known_labels"], args["routine_id"], args["routine_end_offsets"]
    name = op.op_code.name
    params_before = list(op.params)
    known_before = dict(known)
    ids_before = [l.id for l in known.values()]
    res = process_op_for_jump(op, known, rid, ends)
    if list(op.params) != params_before or any(a is not b for a, b in zip(op.params, params_before)):
        return "the input op's parameters were changed"
    if name not in OPS_WITH_JUMP_TO_MEM_OFFSET:
        return None if res is op and known == known_before else "plain op was not returned unchanged"
    idx = OPS_WITH_JUMP_TO_MEM_OFFSET[name]
    tgt = params_before[idx]
    if type(res) is not SsbLabelJump:
        return f"result is a {type(res).__name__}"
    root = res.root
    if root is op or root.offset != op.offset or root.op_code is not op.op_code:
        return "root is not a fresh copy of the op"
    if list(root.params) != params_before[:idx] + params_before[idx + 1:]:
        return f"root params {root.params} are not the op's params minus index {idx}"
    if tgt not in known or res.label is not known[tgt]:
        return "label is not the label registered for the target offset"
    for k, v in known_before.items():
        if known.get(k) is not v:
            return "labels of other offsets were replaced"
    if set(known) - set(known_before) - {tgt}:
        return "unrelated labels were added"
    if tgt not in known_before:
        lab = res.label
        if any(i >= lab.id for i in ids_before):
            return f"new label id {lab.id} is not above the existing ids {ids_before}"
        want = next(i for i in range(len(ends)) if tgt <= ends[i] and (i == 0 or ends[i - 1] < tgt))
        if lab.routine_id != want:
            return f"label for target offset {tgt} is registered in routine {lab.routine_id}, but the op with that offset is in routine {want} (end offsets {ends})"
        if lab.referenced_from_other_routine != (want != rid):
            return f"referenced_from_other_routine={lab.referenced_from_other_routine} for a jump from routine {rid} into routine {want}"
    return None


def rep(args):
    a = dict(args)
    if "op" in a:
        a["op"] = (a["op"].offset, a["op"].op_code.name, [str(p) for p in a["op"].params])
        a["known_labels"] = {k: (v.id, v.routine_id) for k, v in a["known_labels"].items()}
    if "routines" in a:
        a["routines"] = [[o.offset for o in r] for r in a["routines"]]
        a.pop("self", None)
    return repr(sorted(a.items()))


NATIVE = {
    R + ":OpsLabelJumpToResolver._build_end_offsets": {"gen": gen_end_offsets, "monitor": mon_end_offsets, "repr": rep},
    SO + ":process_op_for_jump": {"gen": gen_jump, "monitor": mon_jump, "repr": rep},
}
