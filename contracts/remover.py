"""Sidecar contract for OpsLabelJumpToRemover.__init__ (C03, C01, C07).

C03: "every op of a jump-carrying kind has its target as last parameter and that target is the offset [the label was
resolved to]; no compiler-internal label or label-jump pseudo operation remains".  C01/C07: order of ops is kept.
"""
from pyvc.spec import Registry

LJR = "explorerscript.ssb_converting.compiler.label_jump_to_remover"

IS_JUMP = "isinstance(rs[r][i], SsbLabelJump)"


def register(reg: Registry) -> None:
    reg.load_module("explorerscript.ssb_converting.ssb_special_ops")
    reg.load_module("explorerscript.ssb_converting.ssb_data_types")
    reg.fields({"OpsLabelJumpToRemover.routines": "list[list[Sub[SsbOperation]]]",
                "SsbOperation.offset": "int", "SsbOperation.params": "list[Any]", "SsbOperation.op_code": "SsbOpCode",
                "SsbLabelJump._root": "SsbOperation | None", "SsbLabelJump.label": "Sub[SsbLabel] | None", "SsbLabel.id": "int",
                "SsbLabel.original_name": "str | None"})
    # (r, i) denotes a label jump of the input
    reg.spec_fn("jmp", ["rs", "r", "i"], "0 <= r and r < len(rs) and 0 <= i and i < len(rs[r]) and isinstance(rs[r][i], SsbLabelJump)")
    reg.spec_fn("root", ["rs", "r", "i"], "typed(rs[r][i], 'SsbLabelJump')._root")
    reg.spec_fn("lbl", ["rs", "r", "i"], "typed(rs[r][i], 'SsbLabelJump').label")
    # image of a non-label input op in the output
    reg.spec_fn("oldlen", ["rs", "r", "i"], "old(len(typed(rs[r][i], 'SsbLabelJump')._root.params))")
    # jump (r, i) has been processed: target appended last, other parameters kept, label known
    reg.spec_fn("done", ["rs", "lo", "r", "i"],
                "lbl(rs, r, i).id in lo and len(root(rs, r, i).params) == oldlen(rs, r, i) + 1 "
                "and root(rs, r, i).params[oldlen(rs, r, i)] == lo[lbl(rs, r, i).id] "
                "and all_int(lambda j: implies(0 <= j and j < oldlen(rs, r, i), root(rs, r, i).params[j] is old(typed(rs[r][i], 'SsbLabelJump')._root.params[j])))")
    # routine r of the output (list `out`) is the image of the first n input ops of routine r
    reg.spec_fn("out_ok", ["rs", "out", "r", "n"],
                "len(out) == count_not_inst(rs[r], n, SsbLabel) and all_int(lambda i: implies(0 <= i and i < n and not isinstance(rs[r][i], SsbLabel), "
                "out[count_not_inst(rs[r], i, SsbLabel)] is image(rs, r, i)))")
    reg.spec_fn("inputs_unchanged", ["rs"], "unchanged_list(rs) and all_int(lambda r: implies(0 <= r and r < len(rs), unchanged_list(rs[r])))")
    reg.spec_fn("image", ["rs", "r", "i"], "ite(isinstance(rs[r][i], SsbLabelJump), typed(rs[r][i], 'SsbLabelJump')._root, rs[r][i])")
    reg.contract(
        LJR + ":OpsLabelJumpToRemover.__init__",
        types={"self": "OpsLabelJumpToRemover", "routines": "list[list[Sub[SsbOperation]]]", "label_offsets": "dict[int, int]"},
        requires=[
            # label jumps are complete: they have a root and a label (the compiler replaces every pending `None` label)
            "all_int(lambda r, i: implies(jmp(routines, r, i), not is_none(root(routines, r, i)) and not is_none(lbl(routines, r, i))))",
            # separation: the list objects involved are pairwise distinct (each op owns its parameter list)
            "all_int(lambda r: implies(0 <= r and r < len(routines), routines[r] is not routines))",
            "all_int(lambda r, q: implies(0 <= r and r < q and q < len(routines), routines[r] is not routines[q]))",
            "all_int(lambda r, i, q: implies(jmp(routines, r, i) and 0 <= q and q < len(routines), root(routines, r, i).params is not routines[q] and root(routines, r, i).params is not routines))",
            "all_int(lambda r, i, q, j: implies(jmp(routines, r, i) and jmp(routines, q, j) and (r != q or i != j), root(routines, r, i).params is not root(routines, q, j).params))",
        ],
        raises=[("SsbCompilerError", "any_int(lambda r, i: jmp(routines, r, i) and lbl(routines, r, i).id not in label_offsets)", True)],
        ensures=[
            "fresh(self.routines)", "len(self.routines) == len(routines)",
            # no pseudo operation remains / order kept: routine r of the output is the input routine without labels,
            # every label jump replaced by its root
            "all_int(lambda r: implies(0 <= r and r < len(routines), len(self.routines[r]) == count_not_inst(routines[r], len(routines[r]), SsbLabel)))",
            "all_int(lambda r, i: implies(0 <= r and r < len(routines) and 0 <= i and i < len(routines[r]) and not isinstance(routines[r][i], SsbLabel), self.routines[r][count_not_inst(routines[r], i, SsbLabel)] is image(routines, r, i)))",
            # every root got the offset of its label appended as LAST parameter, the other parameters are kept
            "all_int(lambda r, i: implies(jmp(routines, r, i), len(root(routines, r, i).params) == old(len(root(routines, r, i).params)) + 1 and root(routines, r, i).params[len(root(routines, r, i).params) - 1] == label_offsets[lbl(routines, r, i).id]))",
            "all_int(lambda r, i, j: implies(jmp(routines, r, i) and 0 <= j and j < old(len(root(routines, r, i).params)), root(routines, r, i).params[j] is old(root(routines, r, i).params[j])))",
        ],
        modifies=["self.routines", "*lel", "*llen", "alloc"],
        loops={0: dict(invariants=['fresh(self.routines) and len(self.routines) == it_i', 'inputs_unchanged(routines)', 'all_int(lambda r: implies(0 <= r and r < it_i, fresh(self.routines[r]) and self.routines[r] is not self.routines and out_ok(routines, self.routines[r], r, len(routines[r]))))', 'all_int(lambda r, i: implies(jmp(routines, r, i) and r < it_i, done(routines, label_offsets, r, i)))', 'all_int(lambda r, i: implies(jmp(routines, r, i) and r >= it_i, unchanged_list(root(routines, r, i).params)))']), 1: dict(invariants=['is_int(routine_id) and 0 <= routine_id and routine_id < len(routines) and rtn is routines[routine_id]', 'fresh(self.routines) and len(self.routines) == routine_id + 1 and self.routines[routine_id] is new_rtn_ops and fresh(new_rtn_ops) and new_rtn_ops is not self.routines', 'inputs_unchanged(routines)', 'all_int(lambda r: implies(0 <= r and r < routine_id, fresh(self.routines[r]) and self.routines[r] is not new_rtn_ops and self.routines[r] is not self.routines and out_ok(routines, self.routines[r], r, len(routines[r]))))', 'out_ok(routines, new_rtn_ops, routine_id, it_i)', 'all_int(lambda i: implies(0 <= i and i < it_i and not isinstance(rtn[i], SsbLabel), count_not_inst(rtn, i, SsbLabel) < count_not_inst(rtn, it_i, SsbLabel)))', 'all_int(lambda r, i: implies(jmp(routines, r, i) and (r < routine_id or (r == routine_id and i < it_i)), done(routines, label_offsets, r, i)))', 'all_int(lambda r, i: implies(jmp(routines, r, i) and (r > routine_id or (r == routine_id and i >= it_i)), unchanged_list(root(routines, r, i).params)))'])},
        canaries=["all_int(lambda r, i: implies(jmp(routines, r, i), root(routines, r, i).params[0] == label_offsets[lbl(routines, r, i).id]))"],
        properties=["C03", "C01", "C07"],
    )
