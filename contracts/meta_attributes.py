"""Sidecar contract for parse_exps_meta_attributes (C06, C10): total on every source string."""
from pyvc.spec import Registry

M = "explorerscript.ssb_converting.compiler.meta_attributes"


def register(reg: Registry) -> None:
    reg.contract(
        M + ":parse_exps_meta_attributes",
        types={"explorerscript_src": "str"},
        returns="dict[str, Any]",
        # C10: compilation fails only in documented ways -> this helper, called outside every try block of compile(),
        # must not raise at all (no clause in `raises`): every subscript must be in bounds for every source text.
        ensures=["fresh(result)"],
        modifies=["alloc"],
        loops={0: dict(invariants=["is_int(attribute_reader_line)", "0 <= attribute_reader_line", "attribute_reader_line <= len(lines)"], decreases="len(lines) - attribute_reader_line")},
        canaries=["not fresh(result)"],
        properties=["C10", "C06"],
    )
