"""Native monitors for the decompilers' text writers (run-time form of contracts/decompiler_writer.py): the line counter is
1 + the number of line breaks written, a statement is appended verbatim, a pending Jump is forgotten once a statement is written,
source_map_add_opcode records the current line and indent*4."""
import random

from explorerscript.source_map import SourceMapBuilder
from explorerscript.ssb_converting.ssb_data_types import DungeonModeConstants
from explorerscript.ssb_converting.ssb_decompiler import ExplorerScriptSsbDecompiler
from explorerscript.ssb_script.ssb_converting.ssb_decompiler import SsbScriptSsbDecompiler

D = "explorerscript.ssb_converting.ssb_decompiler"
S = "explorerscript.ssb_script.ssb_converting.ssb_decompiler"
TEXTS = ["", "a();", "x(1,\n  2);", "'''\n  s\n'''", "\n", "if ( $A ) {"]


def g_es(rng):
    d = ExplorerScriptSsbDecompiler([], [], [], "$PPL", DungeonModeConstants("C", "O", "R", "OR"))
    d.smb = SourceMapBuilder()
    out = "".join(rng.choice(TEXTS + ["\n"]) for _ in range(rng.randint(0, 4)))
    d._output = out
    d._line_number = 1 + out.count("\n")
    d.indent = rng.randint(0, 3)
    d._jump_waiting_for_source_map = rng.choice([None, rng.randint(0, 20)])
    return d


def g_ss(rng):
    d = SsbScriptSsbDecompiler([], [], [])
    d._source_map_builder = SourceMapBuilder()
    out = "".join(rng.choice(TEXTS + ["\n"]) for _ in range(rng.randint(0, 4)))
    d._output = out
    d._line_number = 1 + out.count("\n")
    d.indent = rng.randint(0, 3)
    return d


def _inv(d):
    return d._line_number == 1 + d._output.count("\n")


def mon_write_line(method):
    def monitor(args):
        d = args["self"]
        if not _inv(d):
            return None
        ln, nl = d._line_number, d._output.count("\n")
        getattr(d, method)()
        if d._line_number != ln + 1 or d._output.count("\n") != nl + 1 or not _inv(d):
            return f"{method}: line counter {ln} -> {d._line_number}, line breaks {nl} -> {d._output.count(chr(10))}"
        return None

    return monitor


def mon_write_stmnt(is_es):
    def monitor(args):
        d, stmnt, line = args["self"], args["stmnt"], args.get("line", True)
        if not _inv(d):
            return None
        ln, out = d._line_number, d._output
        d.write_stmnt(stmnt, line)
        if not d._output.endswith(stmnt) or not d._output.startswith(out):
            return "the statement text is not appended verbatim at the end of the output"
        if d._line_number != ln + (1 if line else 0) + stmnt.count("\n") or not _inv(d):
            return f"line counter {ln} -> {d._line_number} for a statement with {stmnt.count(chr(10))} line breaks (new line: {line})"
        if is_es and d._jump_waiting_for_source_map is not None:
            return "a Jump that was waiting for its statement is still pending after another statement was written"
        return None

    return monitor


def mon_add_opcode(args):
    d, off = args["self"], args["op_offset"]
    if d.smb is None:
        return None
    ln = d._line_number
    d.source_map_add_opcode(off)
    m = d.smb._mappings.get(off)
    if m is None or m.line != ln or m.column != d.indent * 4 or d._line_number != ln:
        return f"entry of op {off}: {m}, expected line {ln}, column {d.indent * 4}"
    return None


def rep(args):
    d = args["self"]
    return repr({"output": d._output[-40:], "line": d._line_number, "indent": d.indent, **{k: v for k, v in args.items() if k != "self"}})


NATIVE = {
    D + ":ExplorerScriptSsbDecompiler.write_line": {"gen": lambda r: {"self": g_es(r)}, "monitor": mon_write_line("write_line"), "repr": rep},
    D + ":ExplorerScriptSsbDecompiler.write_stmnt": {"gen": lambda r: {"self": g_es(r), "stmnt": r.choice(TEXTS), "line": r.random() < 0.7}, "monitor": mon_write_stmnt(True), "repr": rep},
    S + ":SsbScriptSsbDecompiler._write_line": {"gen": lambda r: {"self": g_ss(r)}, "monitor": mon_write_line("_write_line"), "repr": rep},
    S + ":SsbScriptSsbDecompiler.write_stmnt": {"gen": lambda r: {"self": g_ss(r), "stmnt": r.choice(TEXTS), "line": r.random() < 0.7}, "monitor": mon_write_stmnt(False), "repr": rep},
    D + ":ExplorerScriptSsbDecompiler.source_map_add_opcode": {"gen": lambda r: {"self": g_es(r), "op_offset": r.randint(0, 30)}, "monitor": mon_add_opcode, "repr": rep},
}
