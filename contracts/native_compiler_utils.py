"""Native monitors for Counter and SourceMapBuilder (run-time form of contracts/compiler_utils.py).  A monitor accepts either the
generator's arguments or objects realised from a solver counterexample (key "self")."""
import copy
import random

from explorerscript.source_map import MacroSourceMapping, SourceMap, SourceMapBuilder, SourceMapping
from explorerscript.ssb_converting.compiler.utils import Counter

U = "explorerscript.ssb_converting.compiler.utils"
SM = "explorerscript.source_map"


def g_counter(rng):
    c = Counter()
    c.count = rng.randint(-2, 50)
    return c


def mon_counter_call(args):
    c = args["self"]
    before = c.count
    r = c()
    if r != before + 1 or c.count != before + 1:
        return f"Counter() at {before}: returned {r}, count {c.count}; expected {before + 1}"
    return None


def mon_counter_allocate(args):
    c, n = args["self"], args["num"]
    if n < 0:
        return None
    before = c.count
    r = c.allocate(n)
    if c.count != before + n:
        return f"allocate({n}) at {before}: count became {c.count}"
    if r != before + 1:
        return f"allocate({n}) at {before} returned {r}; the block of numbers starts at {before + 1}"
    return None


def mon_next_id(args):
    c = args["self"]
    before = c.count
    r = c.next_id
    if r != before + 1 or c.count != before:
        return f"next_id at {before}: {r}, count afterwards {c.count} (must not allocate)"
    return None


def mon_called_in(args):
    b = args["self"]
    stack, macros = list(b._macro_context__stack), dict(b._mappings_macros)
    r = b.next_macro_opcode_called_in(args["if_incl_rel_path"], args["line_number"], args["column"])
    if r is not b or tuple(b._next_macro_called_in) != (args["if_incl_rel_path"], args["line_number"], args["column"]):
        return f"pending call position is {b._next_macro_called_in!r}"
    if list(b._macro_context__stack) != stack or dict(b._mappings_macros) != macros:
        return "next_macro_opcode_called_in touched the stack / the macro table"
    return None


def g_builder(rng, depth=None):
    b = SourceMapBuilder()
    for k in rng.sample(range(20), rng.randint(0, 4)):
        b._mappings[k] = SourceMapping(rng.randint(0, 9), rng.randint(0, 9))
    for _ in range(rng.randint(0, 3) if depth is None else depth):
        b._macro_context__stack.append((rng.choice([None, rng.randint(1, 30)]), {"$p": rng.choice(["1", "x"])}))
    b._next_macro_called_in = rng.choice([None, (None, rng.randint(0, 9), rng.randint(0, 9)), ("f.exps", 1, 2)])
    return b


def mon_add_opcode(args):
    b, off, line, col = args["self"], args["op_offset"], args["line_number"], args["column"]
    before = dict(b._mappings)
    r = b.add_opcode(off, line, col)
    if r is not b:
        return "add_opcode does not return the builder"
    m = b._mappings.get(off)
    if m is None or m.line != line or m.column != col:
        return f"entry of op {off} is {m}, expected ({line}, {col})"
    if any(b._mappings.get(k) is not v for k, v in before.items() if k != off) or set(b._mappings) != set(before) | {off}:
        return "other entries changed"
    return None


def mon_add_macro_opcode(args):
    b = args["self"]
    off = args["op_offset"]
    stack = list(b._macro_context__stack)
    called = b._next_macro_called_in
    before = dict(b._mappings_macros)
    try:
        b.add_macro_opcode(off, args["if_incl_rel_path"], args["macro_name"], args["line_number"], args["column"])
    except ValueError:
        return None if not stack else "ValueError although a macro context is open"
    if not stack:
        return "no ValueError without an open macro context"
    m = b._mappings_macros.get(off)
    if type(m) is not MacroSourceMapping:
        return f"entry of op {off} is {m!r}"
    if any(m is v for v in before.values()):
        return "the entry is an object that another offset already has (every op needs its own entry: rewrite_offsets rewrites entries in place)"
    if m.called_in is not called or b._next_macro_called_in is not None:
        return "the pending call position was not consumed exactly once"
    if m.return_addr is not stack[-1][0] or m.parameter_mapping is not stack[-1][1]:
        return "return address / parameter mapping are not the ones on top of the macro context stack"
    if (m.relpath_included_file, m.macro_name, m.line, m.column) != (args["if_incl_rel_path"], args["macro_name"], args["line_number"], args["column"]):
        return "file / macro / position of the entry differ from the arguments"
    if any(b._mappings_macros.get(k) is not v for k, v in before.items() if k != off):
        return "other macro entries changed"
    # a second op of the same statement (same arguments, other offset) gets an entry object of its own
    b.add_macro_opcode(off + 1000, args["if_incl_rel_path"], args["macro_name"], args["line_number"], args["column"])
    if b._mappings_macros[off + 1000] is b._mappings_macros[off]:
        return "two ops of one statement share one entry object (rewrite_offsets rewrites entries in place)"
    return None


def mon_two_macro_opcodes(args):
    """two ops with identical arguments get two entry objects"""
    b = args["self"]
    if not b._macro_context__stack:
        return None
    b.add_macro_opcode(100, None, "m", 3, 4)
    b.add_macro_opcode(101, None, "m", 3, 4)
    if b._mappings_macros[100] is b._mappings_macros[101]:
        return "two ops of one statement share one entry object"
    return None


def mon_push_pop(args):
    b = args["self"]
    n = len(b._macro_context__stack)
    b.macro_context__push(7, {"$a": "1"})
    if len(b._macro_context__stack) != n + 1 or b._macro_context__stack[-1][0] != 7:
        return "push did not put (return address, mapping) on top"
    b.macro_context__pop()
    if len(b._macro_context__stack) != n:
        return "pop did not remove exactly the top"
    return None


def mon_build(args):
    b = args["self"]
    sm = b.build()
    if type(sm) is not SourceMap or sm._mappings is not b._mappings or sm._position_marks is not b._pos_marks or sm._mappings_macros is not b._mappings_macros or sm._position_marks_macro is not b._pos_marks_macros:
        return "build() does not hand out the builder's four tables as they are"
    return None


def rep(args):
    out = {}
    for k, v in args.items():
        if isinstance(v, SourceMapBuilder):
            out[k] = {"map": sorted(v._mappings), "macros": sorted(v._mappings_macros), "stack": len(v._macro_context__stack), "called_in": v._next_macro_called_in}
        elif isinstance(v, Counter):
            out[k] = v.count
        else:
            out[k] = v
    return repr(out)


NATIVE = {
    U + ":Counter.__call__": {"gen": lambda r: {"self": g_counter(r)}, "monitor": mon_counter_call, "repr": rep},
    U + ":Counter.allocate": {"gen": lambda r: {"self": g_counter(r), "num": r.randint(0, 9)}, "monitor": mon_counter_allocate, "repr": rep},
    U + ":Counter.next_id": {"gen": lambda r: {"self": g_counter(r)}, "monitor": mon_next_id, "repr": rep},
    SM + ":SourceMapBuilder.next_macro_opcode_called_in": {"gen": lambda r: {"self": g_builder(r), "if_incl_rel_path": r.choice([None, "f.exps"]), "line_number": r.randint(0, 9), "column": r.randint(0, 9)}, "monitor": mon_called_in, "repr": rep},
    SM + ":SourceMapBuilder.add_opcode": {"gen": lambda r: {"self": g_builder(r), "op_offset": r.randint(0, 25), "line_number": r.randint(0, 9), "column": r.randint(0, 9)}, "monitor": mon_add_opcode, "repr": rep},
    SM + ":SourceMapBuilder.add_macro_opcode": {"gen": lambda r: {"self": g_builder(r), "op_offset": r.randint(0, 25), "if_incl_rel_path": r.choice([None, "a.exps"]), "macro_name": "m", "line_number": r.randint(0, 9), "column": r.randint(0, 9)}, "monitor": mon_add_macro_opcode, "repr": rep},
    SM + ":SourceMapBuilder.macro_context__push": {"gen": lambda r: {"self": g_builder(r)}, "monitor": mon_push_pop, "repr": rep},
    SM + ":SourceMapBuilder.macro_context__pop": {"gen": lambda r: {"self": g_builder(r, depth=r.randint(1, 3))}, "monitor": mon_push_pop, "repr": rep},
    SM + ":SourceMapBuilder.build": {"gen": lambda r: {"self": g_builder(r)}, "monitor": mon_build, "repr": rep},
}
