"""Native monitor for strip_last_label (run-time form of contracts/strip_last_label.py, plus clauses beyond the
deductive layer: plain operations are kept in order, every remaining jump's label is still defined in its routine
or was never defined there, a jump to a stripped label is gone)."""
import random

from explorerscript.ssb_converting.compiler.utils import strip_last_label
from explorerscript.ssb_converting.ssb_data_types import SsbOperation, SsbOpCode, SsbOpParamConstant
from explorerscript.ssb_converting.ssb_special_ops import OP_DUMMY_END, SsbLabel, SsbLabelJump

U = "explorerscript.ssb_converting.compiler.utils"
NAMES = ["op", "Jump", "Return", "End", "Hold", "Branch", "CaseValue", "lives", "Call"]


def gen(rng: random.Random):
    routines = []
    off = 0
    for _ in range(rng.randint(0, 3)):
        labels = [SsbLabel(100 * len(routines) + i, -1) for i in range(rng.randint(0, 3))]
        r = []
        for _ in range(rng.randint(0, 6)):
            k = rng.random()
            off += 1
            if k < 0.35 and labels:
                root = SsbOperation(off, SsbOpCode(-1, rng.choice(["Jump", "Branch", "CaseValue", "Call"])), [SsbOpParamConstant("X")] * rng.randint(0, 1))
                r.append(SsbLabelJump(root, rng.choice(labels)))
            elif k < 0.5 and labels:
                r.append(rng.choice(labels))
            else:
                r.append(SsbOperation(off, SsbOpCode(-1, rng.choice(NAMES)), []))
        # trailing labels, possibly several
        for _ in range(rng.choice([0, 0, 1, 1, 2, 3])):
            if labels:
                r.append(rng.choice(labels))
        routines.append(r)
    return {"routine_ops": routines}


def monitor(args):
    routines = args["routine_ops"]
    before = [list(r) for r in routines]
    res = strip_last_label(routines)  # C10: any exception propagates to the caller of the monitor and is reported
    if len(res) != len(before):
        return f"{len(res)} routines out for {len(before)} in"
    for r_in, r_out in zip(before, res):
        if r_out and isinstance(r_out[-1], SsbLabel):
            return "an output routine ends in a label"
        plain_in = [op for op in r_in if not isinstance(op, (SsbLabel, SsbLabelJump))]
        ids_in = {id(op) for op in plain_in}
        plain_out = [op for op in r_out if not isinstance(op, (SsbLabel, SsbLabelJump)) and id(op) in ids_in]
        for op in r_out:
            if not isinstance(op, (SsbLabel, SsbLabelJump)) and id(op) not in ids_in and not (op.op_code.name == OP_DUMMY_END and not op.params):
                return f"a new operation {op.op_code.name} that is not the end placeholder appears"
        if len(plain_in) != len(plain_out) or any(a is not b for a, b in zip(plain_in, plain_out)):
            return "the plain operations of the routine are not kept in order"
        out_labels = {id(op) for op in r_out if isinstance(op, SsbLabel)}
        in_labels = {id(op) for op in r_in if isinstance(op, SsbLabel)}
        for op in r_out:
            if isinstance(op, SsbLabelJump) and id(op.label) in in_labels and id(op.label) not in out_labels:
                return "a jump to a stripped label remains"
    return None


def rep(args):
    def d(op):
        if isinstance(op, SsbLabel):
            return f"L{op.id}"
        if isinstance(op, SsbLabelJump):
            return f"J({op.root.op_code.name}->L{op.label.id})"
        return f"{op.op_code.name}@{op.offset}"

    return repr([[d(o) for o in r] for r in args["routine_ops"]])


NATIVE = {U + ":strip_last_label": {"gen": gen, "monitor": monitor, "repr": rep}}
