#!/usr/bin/env python
"""Rewrite contracts/BASELINE_DISCHARGED.json from the evidence files of the last runs (run on the UNCHANGED tree only).
A contract listed here had every obligation discharged; from then on any obligation of it that is refuted or can no longer
be discharged is reported as a violation (with `no-failing-input-found` when the counterexample does not replay)."""
import glob, json, os
root = os.path.dirname(os.path.dirname(os.path.abspath(__file__)))
keys = set()
for p in glob.glob(os.path.join(root, "evidence", "C*.json")):
    ev = json.load(open(p))
    keys |= set(ev["coverage"].get("t1_fully_discharged", []))
out = {"fully_discharged": sorted(keys)}
json.dump(out, open(os.path.join(root, "contracts", "BASELINE_DISCHARGED.json"), "w"), indent=1)
print(len(keys), "contracts in baseline")
