#!/usr/bin/env python
"""Rewrite contracts/BASELINE_DISCHARGED.json from the evidence files of the last runs (run on the UNCHANGED tree only).
A contract listed here had every obligation discharged; from then on any obligation of it that is refuted or can no longer
be discharged is reported as a violation (with `no-failing-input-found` when the counterexample does not replay)."""
import glob, json, os
root = os.path.dirname(os.path.dirname(os.path.abspath(__file__)))
keys = set()
digest = {}
structure = {}
for p in glob.glob(os.path.join(root, "evidence", "C*.json")):
    ev = json.load(open(p))
    keys |= set(ev["coverage"].get("t1_fully_discharged", []))
    digest.update(ev["coverage"].get("t1_vc_digest", {}))
    structure.update(ev["coverage"].get("t1_structure", {}))
# vc_digest: sha1 over the formulas of the contract as discharged; a later run whose formulas are identical and whose solver
# merely runs out of budget is recorded as undecided instead of reported (pyvc/run.py)
# structure: loop headers / comprehension count / repository callees of each function when its contract was discharged; if a later
# run finds another structure, failing obligations mean "proof to be redone" and are not reported (pyvc/run.py)
out = {"fully_discharged": sorted(keys), "vc_digest": {k: digest[k] for k in sorted(digest) if k in keys}, "structure": {k: structure[k] for k in sorted(structure) if k in keys}}
json.dump(out, open(os.path.join(root, "contracts", "BASELINE_DISCHARGED.json"), "w"), indent=1)
print(len(keys), "contracts in baseline")
