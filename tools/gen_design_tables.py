#!/usr/bin/env python
"""Regenerate the machine-written parts of DESIGN.md (§8 defects, §9 seeded changes) from known_findings.json and seeded/*/meta.json."""
import glob, json, os, re
ROOT = os.path.dirname(os.path.dirname(os.path.abspath(__file__)))
kf = json.load(open(os.path.join(ROOT, "known_findings.json")))["entries"]
out = []
out.append("## 8. Defects found in `/repo` (from `known_findings.json`)\n")
out.append("Every defect below was first reported by the machinery (a failing obligation or a bounded contract violation with a replayed input), triaged natively, and then either repaired by one minimal unguarded `fix:` commit in `/repo` (the 111 tests pass after each) or recorded as a finding.\n")
out.append("### 8.1 Repaired (`fixed` entries; suppress nothing)\n")
by_commit = {}
for e in kf:
    if e["kind"] == "fixed":
        by_commit.setdefault(e["commit"], []).append(e)
out.append("| commit | properties | what failed |\n|---|---|---|")
for c, es in by_commit.items():
    props = ", ".join(sorted({e["property"] for e in es}))
    what = re.sub(r"^fixed: property=C\d+ \w+ ", "", es[0]["what"]).replace("|", "\\|")
    out.append(f"| `{c}` | {props} | {what} |")
out.append("\n### 8.2 Recorded, not repaired (`finding` entries)\n")
out.append("Repair would need a language change, a redesign of a heuristic, or is a documented limitation; each entry is matched by a failure signature that is a decidable class of inputs plus symptom (and by the list of failing inputs where the class is not an input predicate), so any other violation of the same property is still reported.\n")
out.append("| property | finding |\n|---|---|")
for e in kf:
    if e["kind"] == "finding":
        out.append(f"| {e['property']} | {e['what'].replace('|', chr(92) + '|')} |")
out.append("\n## 9. Seeded changes (`/verif/seeded/`)\n")
out.append("Written by independent sub-agents that saw only the property text and a scratch worktree of `/repo` (nothing from `/verif`), in seven rounds (two changes per property in rounds 1-5; 162 in all; the sixth round for ten properties only, the seventh - one change each for C03, C04, C07, C08, C09, C10, C14, C15: seven detected on first run, C03-m11 and C09-m11 also by a failing T1 obligation; C15-m9 (op-free routine before a routine with jumps) was missed and led to new directed programs -; the later rounds were asked for rarely looked-at code sites, boundary values, cooperating code sites, error paths). About a third of them were missed by the check as it was when they arrived (11 of 34 in round 3, 8 of 34 in round 4, 5 of 34 in round 5, 8 of 18 in round 6, which was asked for inputs that small generators rarely build; one of those - a removed recursion limit, C13-m10 - is still not detected and is recorded as a known gap); every miss led to a stronger check (last column), none to a weaker one. Each change was confirmed in a scratch worktree (demo exits 0 before; patch applies; the 111 tests pass with it; demo exits 1 with it) and then run against the checks. `first run` = verdict of the check as it was when the change arrived; where that was a miss, the check was strengthened (what was added is in the last column) and re-run.\n")
out.append("| id | what it breaks / needs | caught by | notes |\n|---|---|---|---|")
for f in sorted(glob.glob(os.path.join(ROOT, "seeded", "*", "meta.json"))):
    m = json.load(open(f))
    notes = (m.get("needs_to_manifest") or "").strip().splitlines()
    first = notes[0][:230].replace("|", "\\|") if notes else ""
    out.append(f"| {m['id']} | {first} | {', '.join(m.get('detected_by') or ['—'])} | {m.get('note', '')} |")
text = "\n".join(out) + "\n"
p = os.path.join(ROOT, "DESIGN.md")
s = open(p).read()
a = s.index("## 8. Defects found in `/repo`")
b = s.index("## 10. Corrections made to the machinery")
s = s[:a] + text + "\n" + s[b:]
open(p, "w").write(s)
print("DESIGN.md tables regenerated:", len(by_commit), "fix commits,", sum(1 for e in kf if e["kind"] == "finding"), "findings")
