#!/usr/bin/env python
"""Regenerate MANIFEST.json from the table below (kept in one place so that it stays valid)."""
import json
import os

ROOT = os.path.dirname(os.path.dirname(os.path.abspath(__file__)))

T3 = "bounded run-time contract monitor over an exhaustively enumerated small scope + seeded random inputs (stand-in, never counted as proved)"
T1 = "contract-based deductive verification: VCs generated from the real AST (pyvc) and discharged by z3"

CHECKS = {
    "C01": ("exploration", "Top-level contract of compile(): machine(routine_ops) is bisimilar to the reference semantics of the source (spec/sem.py, written from docs/language_spec.rst, independent of the compile handlers) for every outcome of every test, plus routine ids/kinds/targets/coroutine names; evaluated on every program of an exhaustive small scope (all control skeletons up to a size bound) and seeded random programs. Deductive layer (pyvc+z3, all inputs): OpsLabelJumpToRemover.__init__ (output = input without labels, jumps replaced by their roots, order kept, target appended last), strip_last_label and LabelFinalizer (no exception, shape, only labels renumbered), does_op_end_control_flow, the loop/case stacks. The ~40 compile handlers are not within the deductive layer's reach (visitor-built object graphs), so the level is exploration.", "trusted: spec/sem.py + spec/machine.py as the reading of the language specification; ANTLR parser; bounded scope", T3 + "; oracle = independent reference semantics", "§4 C01"),
    "C02": ("exploration", "Contract of ExplorerScriptSsbDecompiler.convert() on well-formed SSB routine sets: the text compiles, machine(compile(text)) and sem(text) are bisimilar to machine(input), headers equal; bounded over compiler output, all small op lists, re-layouts and random lists. Deductive layer: the offset->label resolver functions (process_op_for_jump, _build_end_offsets) are proved against their contracts.", "trusted: spec/machine.py, spec/sem.py; bounded scope; pyvc + z3 for the resolver contracts", T3 + " + " + T1 + " for the resolver", "§4 C02"),
    "C03": ("exploration", "Closedness/uniqueness contract of compile() (both ExplorerScript and SsbScript paths) evaluated on every program of C01's space; deductive layer (proved for all inputs): Counter (allocation strictly monotone, blocks disjoint) and its uniqueness lemma, OpsLabelJumpToRemover.__init__ (no label / label-jump pseudo op remains, target is the last parameter), LabelFinalizer.__init__ (one routine per routine, offsets of real ops untouched), strip_last_label (one routine per routine), the SsbScript listener's label numbering, _process_parameters (every macro expansion owns its parameter list).", "trusted: bounded scope; pyvc + z3 for the counter contracts; the link 'every handler takes its offset from the counter once' is only monitored", T3 + " + " + T1 + " for the offset counter, the label passes and the SsbScript listener", "§4 C03"),
    "C04": ("exploration", "Print->parse and parse->value contracts on the real printers/readers over all strings up to a length bound on a hostile alphabet, all integer/decimal spellings, position marks, language strings, in every printing context and nesting depth, plus an independent reference implementation of the literal rules (spec/literals.py).", "trusted: spec/literals.py as reading of the spec; bounded scope", T3, "§4 C04"),
    "C05": ("exploration", "compile() of macro programs is bisimilar to the program with every call inlined (spec/sem.py), for all DAG call graphs on <= 3/4 macros x all definition orders x file layouts; import resolution order.", "trusted: spec/sem.py inlining semantics; bounded scope", T3, "§4 C05"),
    "C06": ("exploration", "convert() raises nothing on well-formed input; a fallback text starts with the marker line and recompiles op for op; an unmarked text parses and is accepted by the compiler. Deductive layer: parse_exps_meta_attributes (the marker reader) is proved total incl. termination.", "trusted: bounded scope; pyvc + z3 for the marker reader", T3 + " + " + T1 + " for the marker-line reader", "§4 C06"),
    "C07": ("exploration", "SsbScript decompile->compile is the identity on routine sets (ops, params, jump targets denote the corresponding ops) over ALL small op lists without well-formedness filter; deductive layer: resolver functions proved.", "trusted: bounded scope; pyvc + z3 for the resolver contracts", T3 + " + " + T1 + " for the resolver", "§4 C07"),
    "C08": ("exploration", "Source-map contract of compile() (every op has an entry; direct entries at the statement/header start; macro entries: file, macro, position, called_in, return-address bounds; files = contributing imports; position marks) over C01/C05 program spaces with varied layout. Deductive layer: SourceMapBuilder (stack discipline, called_in consumed once, entry fields) and Counter are proved.", "trusted: spec/esast.py positions; bounded scope; pyvc + z3 for SourceMapBuilder/Counter", T3 + " + " + T1 + " for SourceMapBuilder", "§4 C08"),
    "C09": ("exploration", "Decompile-time source map: keys are input offsets, each entry points at the start of the statement printed for its op, recompiling places the op on the same line. Deductive layer: the representation invariant _line_number == 1 + count('\\n', _output) is preserved by write_stmnt/write_line of both decompilers, and source_map_add_opcode + write_stmnt records the line on which the statement starts (lemma).", "trusted: bounded scope; str.count axioms (additive over concatenation); pyvc + z3", T3 + " + " + T1 + " for the line counter", "§4 C09"),
    "C10": ("exploration", "compile() raises only ParseError/SsbCompilerError/ValueError on every text (valid corpus, single-token corruptions, prefixes, random text, meta attribute lines), always rejects each listed meaningless program class and leaves no output; import graphs; CLI exit status. Deductive layer: parse_exps_meta_attributes, strip_last_label, LabelFinalizer._labels_after/__init__ and the loop/case stack methods proved exception-free for every input satisfying the stated well-typed-heap precondition (safety obligations; IndexError of the stack pops exactly when empty).", "trusted: bounded scope; opaque model of re/str library calls in pyvc", T3 + " + " + T1 + " safety obligations", "§4 C10"),
    "C11": ("exploration", "compile()/convert() are functions of their arguments: all histories of length <= 3 over a pool of 12 calls (de Bruijn cover) vs fresh-process baselines, instance reuse, same input object twice, frame of convert(), decompilation order (K processes), every call again in fresh processes with other string-hash seeds, static audit of mutable module/class state.", "trusted: bounded histories", T3 + " over histories", "§4 C11"),
    "C13": ("exploration", "decompile(compile(p)) of every flat structured program (exhaustive up to a bound) contains no jump statement and prints every operation once.", "trusted: spec/esast.py; bounded scope", T3, "§4 C13"),
    "C14": ("proof", "Every obligation generated from the current source of SourceMap.rewrite_offsets of the three __eq__ methods (SourceMapping, MacroSourceMapping, SourceMapPositionMark) and of the three leaf (de)serialisers (plus their round-trip lemmas) against contracts taken from the property text is discharged by z3 for all inputs and all iterations (loop invariants, termination of the return-address search). The JSON glue of SourceMap.serialize/deserialize (comprehensions around json.dumps/loads) and the `same text again` clause are only covered by a bounded stand-in (random maps through real JSON), labelled bounded in evidence; SourceMapBuilder.add_macro_opcode is proved to allocate one entry object per op (rewrite_offsets' precondition), and source maps the compiler really builds are checked for it as a bounded stand-in.", "trusted: pyvc's encoding of Python (DESIGN §2.2), z3, assumed json round-trip contract, well-typed-heap precondition (int keys, one object per macro entry); bounded: SourceMap.serialize/deserialize glue", T1 + "; bounded run-time contract monitor as stand-in for the JSON glue", "§4 C14"),
    "C15": ("exploration", "Both CLIs as subprocesses on generated programs and on documents enumerating every documented routine/argument type: JSON schema from the docs, jump parameter = 1-based position of its target, decompile accepts the output and the result is bisimilar, exit status.", "trusted: bounded scope; jsonschema written from docs/cli_api_usage.rst", T3 + " (subprocess level)", "§4 C15"),
    "C16": ("exploration", "Relational contract of compile(): every re-spelling (layout, comments at every token boundary, @/§, for_actor/for actor, trailing comma, integer bases, decimal zeros, quote style) compiles to identical ops/tables/position marks.", "trusted: the re-spelling generator only applies transformations the grammar defines as equivalent; bounded scope", T3 + " (metamorphic)", "§4 C16"),
    "C17": ("proof", "Under a stated contract on Pygments' RegexLexer engine the property reduces to obligations on the lexer's token table: no rule matches the empty string (termination), every action emits the whole match (losslessness), every reachable state is total on non-newline input (no Error token, for ALL strings). The obligations are generated from the real processed table on every run and discharged by z3's regex theory; the engine contract and the normalisation reading are cross-checked by an exhaustive bounded run (labelled bounded).", "trusted: the assumed engine contract (Pygments source), the re->z3 translation, z3's regex solver; interpretation: 'up to the trailing newline' is read as Pygments' documented input normalisation", "contract-based deductive verification of the lexer's token table (regex VCs, z3) + bounded exhaustive cross-check", "§4 C17"),
    "C18": ("exploration", "PositionMarkVisitor listing vs an independent token-stream scan (order, spans, values vs compiled parameters) and the replacement contract (substituting the delimited span changes exactly that parameter), over generated placements of 1-4 literals.", "trusted: bounded scope; ANTLR token positions", T3, "§4 C18"),
}

T1_SERVED = ["C01", "C02", "C03", "C04", "C05", "C06", "C07", "C08", "C09", "C10", "C14", "C15"]


def main(claimed: list[str]) -> None:
    checks = []
    for pid in sorted(claimed):
        cat, text, note, tech, ref = CHECKS[pid]
        checks.append({
            "property_id": pid,
            "quick_cmd": f"./check {pid} --tier quick",
            "thorough_cmd": f"./check {pid} --tier thorough",
            "evidence_file": f"evidence/{pid}.json",
            "replay_cmd_template": f"./check {pid} --replay {{path}}",
            "engine": "pyvc" if pid == "C14" else ("regex-vc" if pid == "C17" else "monitor+gen"),
            "level_claimed": {"category": cat, "text": text, "design_ref": "DESIGN.md " + ref},
            "level_note": note,
            "technique": tech,
        })
    na = [{"property_id": "C12", "reason": "quantifies over thread interleavings at bytecode boundaries; function-by-function deductive contracts have no notion of a schedule and nothing installed provides a concurrency logic or a model of CPython's scheduler; a stress test would be a different technique family (DESIGN.md §4 C12)"}]
    for pid in sorted(set(CHECKS) - set(claimed)):
        na.append({"property_id": pid, "reason": "check not finished at this commit: no sound check registered yet (see DESIGN.md); not a claim that the technique cannot apply"})
    m = {
        "version": 1,
        "setup_cmd": "./setup.sh",
        "hooks": {
            "guard": "EXPLORERSCRIPT_VERIF",
            "enable": "no hook in /repo is needed: contracts live in sidecar files under /verif/contracts and run-time monitors are installed by monkey-patching inside the check process",
            "baseline_off_cmd": "cd /repo && /venv/bin/python -m pytest -ra -q -p no:cacheprovider --timeout=900 --continue-on-collection-errors",
            "source_commits": [],
            "add_only": True,
        },
        "engines": [
            {"name": "pyvc", "path": "pyvc/", "serves_properties": [p for p in T1_SERVED if p in claimed], "kind_free_text": "T1: own VC generator — symbolic execution of the real Python AST re-read from /repo on every run, sidecar contracts in contracts/, loop invariants + Houdini frame inference, obligations discharged by z3 5.1; counterexamples concretised and replayed on the real function through native monitors"},
            {"name": "regex-vc", "path": "props/C17.py", "serves_properties": ["C17"], "kind_free_text": "T1 for the lexer table: Python re -> z3 regex translation of the real processed token table; progress/totality obligations discharged by z3's regex theory"},
            {"name": "monitor+gen", "path": "props/, gen/, spec/, contracts/native_*.py", "serves_properties": sorted(claimed), "kind_free_text": "T3: the properties' contracts as run-time monitors on the real code over enumerated / seeded inputs with independent spec functions (machine model, reference semantics, literal rules); bounded stand-in, never counted as proved"},
        ],
        "checks": checks,
        "not_applicable": na,
        "notes": "see DESIGN.md; known_findings.json lists fixed defects (58 fix: commits in /repo) and the findings that are recorded rather than repaired",
    }
    with open(os.path.join(ROOT, "MANIFEST.json"), "w") as fh:
        json.dump(m, fh, indent=1)
    import jsonschema

    jsonschema.validate(m, json.load(open("/root/.vp/MANIFEST.schema.json")))
    print("MANIFEST ok:", len(checks), "checks;", [x["property_id"] for x in na], "not claimed")


if __name__ == "__main__":
    import sys

    main(sys.argv[1:])
