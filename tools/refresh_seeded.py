#!/usr/bin/env python
"""Re-run every stored seeded change the registered way and refresh its meta.json.

usage: tools/refresh_seeded.py [--worktree] [--extra C10,C03] [<id> ...]

For each /verif/seeded/<id>: tools/try_mutant.py <dir> <props> where props = the property the change breaks, the checks
recorded in its meta.json and, with --extra, further checks.  Without --worktree the patch is applied to /repo itself
(git apply; checks; git checkout -- .), so nothing else may read /repo meanwhile.  Patches that no longer apply to HEAD are
reported and left alone."""
import json, os, subprocess, sys

VERIF = os.path.dirname(os.path.dirname(os.path.abspath(__file__)))
args = sys.argv[1:]
wt = "--worktree" in args
if wt:
    args.remove("--worktree")
no_confirm = "--no-confirm" in args
if no_confirm:
    args.remove("--no-confirm")
extra = []
if "--extra" in args:
    i = args.index("--extra")
    extra = args[i + 1].split(",")
    del args[i : i + 2]
ids = args or sorted(os.listdir(os.path.join(VERIF, "seeded")))
head = subprocess.run("git -C /repo rev-parse --short HEAD", shell=True, capture_output=True, text=True).stdout.strip()
summary = []
for mid in ids:
    d = os.path.join(VERIF, "seeded", mid)
    mp = os.path.join(d, "meta.json")
    if not os.path.exists(mp):
        continue
    meta = json.load(open(mp))
    props = [meta["breaks_property"]] + [p for p in list(meta.get("checks", {})) + extra if p != meta["breaks_property"]]
    props = list(dict.fromkeys(props))
    cmd = [os.path.join(VERIF, ".venv/bin/python"), os.path.join(VERIF, "tools/try_mutant.py"), d] + props + (["--worktree"] if wt else []) + (["--no-confirm"] if no_confirm else [])
    p = subprocess.run(cmd, capture_output=True, text=True)
    try:
        out = json.loads(p.stdout[p.stdout.index("{"):])
    except Exception:
        print(mid, "try_mutant failed:", (p.stdout + p.stderr)[-400:], flush=True)
        summary.append((mid, "ERROR"))
        continue
    if not out.get("applies"):
        print(mid, "patch does not apply to", head, flush=True)
        summary.append((mid, "DOES-NOT-APPLY"))
        continue
    meta["repo_commit"] = head
    if not out.get("confirm_skipped"):
        meta["confirmed"] = out["confirmed"]
    meta["checks"] = out["checks"]
    meta["detected_by"] = out["detected_by"]
    meta["mode"] = out.get("mode")
    json.dump(meta, open(mp, "w"), indent=1)
    print(mid, "confirmed" if (out["confirmed"] or out.get("confirm_skipped")) else "NOT-CONFIRMED", "detected by", out["detected_by"], {k: v["wall_s"] for k, v in out["checks"].items()}, flush=True)
    summary.append((mid, out["detected_by"]))
missed = [m for m, dby in summary if dby in ("ERROR", "DOES-NOT-APPLY") or not dby]
print("DONE; not detected / problems:", missed)
