#!/usr/bin/env python
"""Confirm a seeded change and run the checks against it.

usage: tools/try_mutant.py <dir with patch.diff + demo.py> <PROP> [<PROP> ...] [--tier quick] [--keep <seeded id>]

1. scratch worktree of /repo HEAD under /tmp: demo exits 0 without the patch; patch applies; test suite passes with it;
   demo exits 1 with it.  The worktree is removed.
2. the patch is applied to /repo itself (git apply), the named checks run, /repo is restored (git checkout -- .).
Prints one JSON summary; with --keep writes /verif/seeded/<id>/{patch.diff, demo.py, meta.json}.
"""
import json
import os
import shutil
import subprocess
import sys
import tempfile
import time

VERIF = os.path.dirname(os.path.dirname(os.path.abspath(__file__)))
REPO = "/repo"
PY = "/venv/bin/python"


def sh(cmd, cwd=None, env=None, timeout=3600):
    p = subprocess.run(cmd, cwd=cwd, env=env, shell=isinstance(cmd, str), capture_output=True, text=True, timeout=timeout)
    return p.returncode, p.stdout + p.stderr


def main():
    args = sys.argv[1:]
    tier = "quick"
    keep = None
    in_worktree = False
    if "--worktree" in args:
        # run the checks against a patched scratch worktree (PYTHONPATH/VERIF_REPO) instead of patching /repo itself;
        # used while other work is reading /repo.  The registered procedure (apply to /repo, run, restore) is the default.
        in_worktree = True
        args.remove("--worktree")
    no_confirm = False
    if "--no-confirm" in args:
        # skip step 1 (scratch worktree: demo without / tests / demo with): for changes that were confirmed before and are only
        # re-run against the checks
        no_confirm = True
        args.remove("--no-confirm")
    if "--tier" in args:
        i = args.index("--tier")
        tier = args[i + 1]
        del args[i : i + 2]
    if "--keep" in args:
        i = args.index("--keep")
        keep = args[i + 1]
        del args[i : i + 2]
    d = os.path.abspath(args[0])
    props = args[1:]
    patch = os.path.join(d, "patch.diff")
    demo = os.path.join(d, "demo.py")
    out = {"dir": d, "props": props, "tier": tier}
    rc, status = sh("git status --porcelain --untracked-files=no", cwd=REPO)
    if status.strip():
        print("refusing: /repo has uncommitted changes:\n" + status)
        sys.exit(2)
    wt = tempfile.mkdtemp(prefix="mt-", dir="/tmp")
    os.rmdir(wt)
    if no_confirm:
        rc, o = sh(f"git apply --check {patch}", cwd=REPO)
        out["applies"] = rc == 0
        out["confirm_skipped"] = True
    try:
        if no_confirm:
            raise StopIteration
        rc, o = sh(f"git worktree add -q --detach {wt} HEAD", cwd=REPO)
        assert rc == 0, o
        env = dict(os.environ, PYTHONPATH=wt, PYTHONDONTWRITEBYTECODE="1")
        if os.path.exists(demo):
            rc0, o0 = sh([PY, demo], cwd=wt, env=env, timeout=600)
            out["demo_without"] = rc0
        rc, o = sh(f"git apply {patch}", cwd=wt)
        out["applies"] = rc == 0
        if rc != 0:
            out["apply_error"] = o[-500:]
        else:
            rc, o = sh([PY, "-m", "pytest", "-q", "-p", "no:cacheprovider", "-x"], cwd=wt, env=env, timeout=1800)
            out["tests_pass_with"] = rc == 0
            out["tests_tail"] = o.strip().splitlines()[-1:] if o.strip() else []
            if os.path.exists(demo):
                rc1, o1 = sh([PY, demo], cwd=wt, env=env, timeout=600)
                out["demo_with"] = rc1
                out["demo_output_with"] = o1[-600:]
    except StopIteration:
        pass
    finally:
        if not no_confirm:
            sh(f"git worktree remove --force {wt}", cwd=REPO)
            shutil.rmtree(wt, ignore_errors=True)
    confirmed = out.get("applies") and out.get("tests_pass_with") and out.get("demo_without") == 0 and out.get("demo_with") == 1
    out["confirmed"] = bool(confirmed)
    results = {}
    if out.get("applies"):
        env2 = dict(os.environ)
        # evidence/ and replay/ of a run against a changed tree do not belong to the registered checks
        env2["VERIF_OUT"] = os.path.join(VERIF, "scratch", "mutant_out")
        if in_worktree:
            wt2 = tempfile.mkdtemp(prefix="mt-", dir="/tmp")
            os.rmdir(wt2)
            rc, o = sh(f"git worktree add -q --detach {wt2} HEAD", cwd=REPO)
            assert rc == 0, o
            rc, o = sh(f"git apply {patch}", cwd=wt2)
            assert rc == 0, o
            env2.update(PYTHONPATH=wt2, VERIF_REPO=wt2)
            out["mode"] = "scratch worktree via PYTHONPATH/VERIF_REPO"
        else:
            rc, o = sh(f"git apply {patch}", cwd=REPO)
            assert rc == 0, o
            out["mode"] = "git -C /repo apply; checks; git -C /repo checkout -- ."
        try:
            for p in props:
                t0 = time.time()
                rc, o = sh(["./check", p, "--tier", tier], cwd=VERIF, timeout=7200, env=env2)
                lines = [ln for ln in o.splitlines() if ln.startswith("VIOLATION")]
                results[p] = {"exit": rc, "violations": len(lines), "first": lines[:4], "wall_s": round(time.time() - t0, 1), "tail": o.strip().splitlines()[-1:] if rc not in (0, 1) else []}
        finally:
            if in_worktree:
                sh(f"git worktree remove --force {wt2}", cwd=REPO)
                shutil.rmtree(wt2, ignore_errors=True)
            else:
                sh("git checkout -- .", cwd=REPO)
    out["checks"] = results
    out["detected_by"] = [p for p, r in results.items() if r["exit"] == 1]
    print(json.dumps(out, indent=1))
    if keep and confirmed:
        dest = os.path.join(VERIF, "seeded", keep)
        os.makedirs(dest, exist_ok=True)
        shutil.copy(patch, os.path.join(dest, "patch.diff"))
        shutil.copy(demo, os.path.join(dest, "demo.py"))
        notes = ""
        if os.path.exists(os.path.join(d, "notes.txt")):
            notes = open(os.path.join(d, "notes.txt")).read()
        rc, head = sh("git rev-parse --short HEAD", cwd=REPO)
        meta = {
            "id": keep,
            "breaks_property": props[0] if props else None,
            "needs_to_manifest": notes,
            "repo_commit": head.strip(),
            "what_i_ran": [
                "scratch worktree of /repo HEAD: demo.py exits 0 without the patch; git apply patch.diff; pytest (111 tests) passes; demo.py exits 1",
                f"git -C /repo apply patch.diff; ./check <prop> --tier {tier}; git -C /repo checkout -- .",
            ],
            "confirmed": out["confirmed"],
            "checks": results,
            "detected_by": out["detected_by"],
        }
        json.dump(meta, open(os.path.join(dest, "meta.json"), "w"), indent=1)


if __name__ == "__main__":
    main()
