"""SSB machine model and behavioural equivalence (trusted spec functions, written from the text of property C01).

Machine model (C01): ops run in order; a branch, case or call op goes to its target exactly when taken; Jump always goes;
flow-ending ops (Return, End, Hold, JumpCommon, Destroy) stop; running off the end of a routine stops like `Return`.
Jump ops are *silent* (they perform nothing observable).

A behaviour is a rooted, deterministic labelled graph ("LTS"):
    nodes: id -> Node(kind, label, succ)
        kind 'op'    : one successor           (an observable operation)
        kind 'test'  : two successors (taken, not_taken)   (Branch*/Case*/Call and whatever a front end marks as test)
        kind 'stop'  : no successor             (flow-ending op; label carries the op, `Return` for running off the end)
        kind 'silent': one successor            (Jump / label / structural no-op)
Two LTS are equivalent iff, after skipping silent nodes, they perform the same labels and, for every outcome of every
test, continue equivalently (bisimulation of deterministic graphs, computed by a product walk).
"""
from __future__ import annotations

from dataclasses import dataclass
from typing import Any, Hashable

from explorerscript.ssb_converting.ssb_data_types import (
    SsbOpParamConstant,
    SsbOpParamConstString,
    SsbOpParamFixedPoint,
    SsbOpParamLanguageString,
    SsbOpParamPositionMarker,
)
from explorerscript.ssb_converting.ssb_special_ops import OPS_WITH_JUMP_TO_MEM_OFFSET

STOP_OPS = ("Return", "End", "Hold", "JumpCommon", "Destroy")
SILENT_JUMP = "Jump"
IMPLICIT_RETURN = ("Return", ())


def param_key(p: Any) -> tuple:
    """Structural, hashable representation of a parameter value (type and every field)."""
    if isinstance(p, bool):
        return ("bool", p)
    if isinstance(p, int):
        return ("int", p)
    if isinstance(p, SsbOpParamFixedPoint):
        return ("fixed", p.value)
    if isinstance(p, SsbOpParamConstant):
        return ("const", p.name)
    if isinstance(p, SsbOpParamConstString):
        return ("str", p.name)
    if isinstance(p, SsbOpParamLanguageString):
        return ("lang", tuple(sorted(p.strings.items())))
    if isinstance(p, SsbOpParamPositionMarker):
        return ("pos", p.name, p.x_offset, p.y_offset, p.x_relative, p.y_relative)
    if isinstance(p, str):
        return ("rawstr", p)
    if isinstance(p, float):
        return ("float", p)
    return ("other", type(p).__name__, repr(p))


@dataclass(frozen=True)
class Node:
    kind: str  # op | test | stop | silent
    label: tuple  # (opname, (param_key, ...)) ; () for silent
    succ: tuple  # node ids


class OpFreeCycle(Exception):
    pass


class MalformedRoutines(Exception):
    """The op lists are not something the machine can run (dangling jump target, missing jump parameter)."""


CTX_OPS = ("lives", "object", "performer")


def machine(routine_ops: list[list[Any]], target_index: str = "last", ctx_continues: bool = False) -> tuple[dict[Hashable, Node], list[Hashable]]:
    """LTS of compiled (label-free) SSB routines. Returns (nodes, entry node id per routine).

    Node ids are ('o', offset) and ('end', routine index) for running off the end of routine r.
    The jump target of ops in OPS_WITH_JUMP_TO_MEM_OFFSET is read at the table's index *unless* `target_last` semantics
    applies: compiler output always has it as the last parameter (target_index="last", the default); binary-reader
    input as the decompiler reads it has it at the table's index (target_index="table"). For ops with the documented
    parameter count both coincide.

    ctx_continues (refinement used by C01, see props/C01.py "Context ops"): a flow-ending op that directly follows a context
    op (lives / object / performer) is run in the context of that actor / object / performer - it is performed, and the routine
    itself goes on with the next op.
    """
    nodes: dict[Hashable, Node] = {}
    entries: list[Hashable] = []
    offsets = set()
    for r in routine_ops:
        for op in r:
            if op.offset in offsets:
                raise MalformedRoutines(f"duplicate offset {op.offset}")
            offsets.add(op.offset)
    for ri, r in enumerate(routine_ops):
        end_id = ("end", ri)
        nodes[end_id] = Node("stop", IMPLICIT_RETURN, ())
        entries.append(("o", r[0].offset) if r else end_id)
        for i, op in enumerate(r):
            name = op.op_code.name
            nxt = ("o", r[i + 1].offset) if i + 1 < len(r) else end_id
            params = list(op.params)
            if name in OPS_WITH_JUMP_TO_MEM_OFFSET:
                tidx = len(params) - 1 if target_index == "last" else OPS_WITH_JUMP_TO_MEM_OFFSET[name]
                if tidx < 0 or tidx >= len(params) or not isinstance(params[tidx], int) or isinstance(params[tidx], bool):
                    raise MalformedRoutines(f"op {name}@{op.offset} has no integer jump target at index {tidx}")
                tgt = params.pop(tidx)
                if tgt not in offsets:
                    raise MalformedRoutines(f"op {name}@{op.offset} targets {tgt}, which is not the offset of an op")
                label = (name, tuple(param_key(p) for p in params))
                if name == SILENT_JUMP:
                    nodes[("o", op.offset)] = Node("silent", (), (("o", tgt),))
                else:
                    nodes[("o", op.offset)] = Node("test", label, (("o", tgt), nxt))
            else:
                label = (name, tuple(param_key(p) for p in params))
                in_ctx = ctx_continues and i > 0 and r[i - 1].op_code.name in CTX_OPS
                if name in STOP_OPS and not in_ctx:
                    nodes[("o", op.offset)] = Node("stop", label, ())
                else:
                    nodes[("o", op.offset)] = Node("op", label, (nxt,))
    return nodes, entries


def skip_silent(nodes: dict[Hashable, Node], nid: Hashable) -> Hashable:
    seen = set()
    while nodes[nid].kind == "silent":
        if nid in seen:
            raise OpFreeCycle(str(nid))
        seen.add(nid)
        nid = nodes[nid].succ[0]
    return nid


def stop_label_equal(a: tuple, b: tuple) -> bool:
    return a == b


def equiv(n1: dict, e1: Hashable, n2: dict, e2: Hashable, max_pairs: int = 200000) -> None | list:
    """None if equivalent; otherwise a distinguishing path: list of (label, outcome) steps followed by a final
    ('MISMATCH', left_node_description, right_node_description). Raises OpFreeCycle if either side has a silent cycle
    on a reachable path (such inputs are outside the properties' quantifiers)."""
    start = (skip_silent(n1, e1), skip_silent(n2, e2))
    parent: dict = {start: None}
    stack = [start]
    while stack:
        pair = stack.pop()
        a, b = n1[pair[0]], n2[pair[1]]
        if a.kind != b.kind or a.label != b.label:
            path = []
            cur = pair
            while parent[cur] is not None:
                prev, step = parent[cur]
                path.append(step)
                cur = prev
            path.reverse()
            path.append(("MISMATCH", [a.kind, a.label], [b.kind, b.label]))
            return path
        for k, (sa, sb) in enumerate(zip(a.succ, b.succ)):
            nxt = (skip_silent(n1, sa), skip_silent(n2, sb))
            if nxt not in parent:
                outcome = ("taken" if k == 0 else "not-taken") if a.kind == "test" else "next"
                parent[nxt] = (pair, (a.label, outcome))
                stack.append(nxt)
                if len(parent) > max_pairs:
                    raise RuntimeError("equiv: pair budget exceeded")
    return None


def reachable_labels(nodes: dict, entry: Hashable) -> list[tuple]:
    """Labels of all reachable non-silent nodes (diagnostics / multiset checks)."""
    out = []
    seen = set()
    stack = [skip_silent(nodes, entry)]
    while stack:
        n = stack.pop()
        if n in seen:
            continue
        seen.add(n)
        out.append(nodes[n].label)
        for s in nodes[n].succ:
            stack.append(skip_silent(nodes, s))
    return out


def describe_path(path: list) -> str:
    parts = []
    for step in path:
        if step[0] == "MISMATCH":
            parts.append(f"then LEFT does {step[1]} but RIGHT does {step[2]}")
        else:
            (label, outcome) = step
            parts.append(f"{label[0] if label else '?'}[{outcome}]")
    return " -> ".join(parts)
