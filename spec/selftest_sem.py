"""Self-test of the oracle (spec/esast.py + spec/sem.py + the printer of gen/programs.py).

Hand-written programs with hand-written expected behaviour graphs (LTS).  Expected graphs are written directly from
docs/language_spec.rst - opcode names, parameter order and the numeric operator codes are spelled out here by hand
(FALSE 0, TRUE 1, == 2, > 3, < 4, >= 5, <= 6, != 7, & 8, ^ 9, &<< 10;  = 0, -= 1, += 2, *= 3, /= 4).

Every case is checked three ways:
  1. sem(parse(text)) is equivalent to the expected LTS (all outcomes of all tests),
  2. a mutant of the expected LTS (first operation renamed / first test swapped) is NOT equivalent (the comparison
     is not vacuous),
  3. print(parse(text)) parses back to the same AST (printer/parser agree).
Run:  /verif/.venv/bin/python -m spec.selftest_sem      exit 0 = all passed, 1 = failure.
"""
from __future__ import annotations

import sys
from typing import Any

from explorerscript.ssb_converting.ssb_data_types import SsbRoutineType

from gen.programs import to_text
from spec import esast
from spec.machine import Node, equiv, reachable_labels
from spec.sem import StaticError, sem


# ---------------------------------------------------------------------------------------- expected-LTS notation
class K:  # constant
    def __init__(self, name: str):
        self.key = ("const", name)


class F:  # fixed point
    def __init__(self, text: str):
        self.key = ("fixed", text)


class L:  # language string
    def __init__(self, **strings: str):
        self.key = ("lang", tuple(sorted(strings.items())))


class PM:  # position mark
    def __init__(self, name: str, xo: int, yo: int, x: int, y: int):
        self.key = ("pos", name, xo, yo, x, y)


def pk(v: Any) -> tuple:
    if isinstance(v, int):
        return ("int", v)
    if isinstance(v, str):
        return ("str", v)
    return v.key


def lab(name: str, *params: Any) -> tuple:
    return (name, tuple(pk(p) for p in params))


def op(label: tuple, nxt: str) -> tuple:
    return ("op", label, (nxt,))


def test(label: tuple, taken: str, not_taken: str) -> tuple:
    return ("test", label, (taken, not_taken))


def stop(label: tuple) -> tuple:
    return ("stop", label, ())


def build(spec: dict) -> dict:
    nodes = {"END": Node("stop", ("Return", ()), ())}
    for name, (kind, label, succ) in spec.items():
        nodes[name] = Node(kind, label, tuple(succ))
    for n in nodes.values():
        for s in n.succ:
            assert s in nodes, f"expected LTS refers to unknown node {s}"
    return nodes


DEBUG1 = lab("BranchDebug", 1)
EDIT1 = lab("BranchEdit", 1)
a, b, c, d = lab("a"), lab("b"), lab("c"), lab("d")

CASES: list = []


def case(name: str, text: str, *routines: tuple, headers: Any = None) -> None:
    """routines: (expected LTS spec dict, entry node name) per routine in source order"""
    CASES.append((name, text, routines, headers))


# ---------------------------------------------------------------------------------------- the cases
case("ops in order, running off the end", "def 0 { a(); b(1); }", ({"1": op(a, "2"), "2": op(lab("b", 1), "END")}, "1"))
case("return stops", "def 0 { a(); return; b(); }", ({"1": op(a, "2"), "2": stop(lab("Return"))}, "1"))
case("end and hold are different stops", "def 0 { if (debug) { end; } hold; }",
     ({"t": test(DEBUG1, "e", "h"), "e": stop(lab("End")), "h": stop(lab("Hold"))}, "t"))  # fmt: skip
case(
    "argument kinds",
    """def 0 { x(12, -12, 0x12, 0o7, 0b110, 1.50, -.5, CONST, $VAR, "s", 'q', "a\\nb", {english="x", french='y'},
           Position<'P', 20, 20.5>, Position<"Q", 1.5, 2>); }""",
    ({"1": op(lab("x", 12, -12, 18, 7, 6, F("1.50"), F("-0.5"), K("CONST"), K("$VAR"), "s", "q", "a\nb",
                  L(english="x", french="y"), PM("P", 0, 2, 20, 20), PM("Q", 2, 0, 1, 2)), "END")}, "1"),
)  # fmt: skip
case("if == is Branch [var, value]", "def 0 { if ($V == 3) { a(); } b(); }",
     ({"t": test(lab("Branch", K("$V"), 3), "a", "b"), "a": op(a, "b"), "b": op(b, "END")}, "t"))  # fmt: skip
case("if > is BranchValue [var, op, value]", "def 0 { if (4 > 3) { a(); } }",
     ({"t": test(lab("BranchValue", 4, 3, 3), "a", "END"), "a": op(a, "END")}, "t"))  # fmt: skip
case("all BranchValue operators", "def 0 { if ($V FALSE 1 || $V TRUE 1 || $V < 1 || $V >= 1 || $V <= 1 || $V != 1 || $V & 1 || $V ^ 1 || $V &<< 1) { a(); } }",
     ({**{f"t{i}": test(lab("BranchValue", K("$V"), code, 1), "a", f"t{i + 1}" if i < 8 else "END")
          for i, code in enumerate([0, 1, 4, 5, 6, 7, 8, 9, 10])}, "a": op(a, "END")}, "t0"))  # fmt: skip
case("value(X) is BranchVariable, also with ==", "def 0 { if ($V <= value($W) || $V == value(3)) { a(); } }",
     ({"t": test(lab("BranchVariable", K("$V"), 6, K("$W")), "a", "u"),
       "u": test(lab("BranchVariable", K("$V"), 2, 3), "a", "END"), "a": op(a, "END")}, "t"))  # fmt: skip
case("if not runs the block when the test is NOT taken", "def 0 { if not (debug) { a(); } b(); }",
     ({"t": test(DEBUG1, "b", "a"), "a": op(a, "b"), "b": op(b, "END")}, "t"))  # fmt: skip
case("|| : any taken", "def 0 { if (debug || edit) { a(); } else { b(); } c(); }",
     ({"t": test(DEBUG1, "a", "u"), "u": test(EDIT1, "a", "b"), "a": op(a, "c"), "b": op(b, "c"), "c": op(c, "END")}, "t"))  # fmt: skip
case("not (x || y): none taken", "def 0 { if not (debug || edit) { a(); } c(); }",
     ({"t": test(DEBUG1, "c", "u"), "u": test(EDIT1, "c", "a"), "a": op(a, "c"), "c": op(c, "END")}, "t"))  # fmt: skip
case("elseif chain in source order, else last", "def 0 { if (debug) { a(); } elseif not (edit) { b(); } else { c(); } d(); }",
     ({"t": test(DEBUG1, "a", "u"), "u": test(EDIT1, "c", "b"), "a": op(a, "d"), "b": op(b, "d"), "c": op(c, "d"),
       "d": op(d, "END")}, "t"))  # fmt: skip
case("inner not is a parameter, outer not negates", "def 0 { if (not debug) { a(); } if not (not variation) { b(); } }",
     ({"t": test(lab("BranchDebug", 0), "a", "u"), "a": op(a, "u"), "u": test(lab("BranchVariation", 0), "END", "b"),
       "b": op(b, "END")}, "t"))  # fmt: skip
case("bit checks", "def 0 { if ($V[3]) { a(); } if (PERFORMANCE_PROGRESS_LIST[2]) { b(); } if (not PERFORMANCE_PROGRESS_LIST[5]) { c(); } }",
     ({"t": test(lab("BranchBit", K("$V"), 3), "a", "u"), "a": op(a, "u"),
       "u": test(lab("BranchPerformance", 2, 1), "b", "w"), "b": op(b, "w"),
       "w": test(lab("BranchPerformance", 5, 0), "c", "END"), "c": op(c, "END")}, "t"))  # fmt: skip
case("scenario checks", "def 0 { if (scn($S) > [30, 2] || scn($S) == [1, 0] || scn($S) >= [2, 1] || scn($S) <= [3, 2] || scn(5) < [4, 3]) { a(); } }",
     ({"1": test(lab("BranchScenarioAfter", K("$S"), 30, 2), "a", "2"), "2": test(lab("BranchScenarioNow", K("$S"), 1, 0), "a", "3"),
       "3": test(lab("BranchScenarioNowAfter", K("$S"), 2, 1), "a", "4"), "4": test(lab("BranchScenarioNowBefore", K("$S"), 3, 2), "a", "5"),
       "5": test(lab("BranchScenarioBefore", 5, 4, 3), "a", "END"), "a": op(a, "END")}, "1"))  # fmt: skip
case("operation as condition", "def 0 { if (BranchSum(1, X)) { a(); } }",
     ({"t": test(lab("BranchSum", 1, K("X")), "a", "END"), "a": op(a, "END")}, "t"))  # fmt: skip
case("empty if block still tests", "def 0 { if (debug) { } a(); }", ({"t": test(DEBUG1, "a", "a"), "a": op(a, "END")}, "t"))
case("switch: header op, tests in order, break, fall-through, default",
     "def 0 { switch ($V) { case 1: a(); break; case 2: b(); default: c(); } d(); }",
     ({"s": op(lab("Switch", K("$V")), "1"), "1": test(lab("Case", 1), "a", "2"), "2": test(lab("Case", 2), "b", "c"),
       "a": op(a, "d"), "b": op(b, "c"), "c": op(c, "d"), "d": op(d, "END")}, "s"))  # fmt: skip
case("default in the middle: tested last, body in source order",
     "def 0 { switch ($V) { case 1: a(); default: b(); case 2: c(); } }",
     ({"s": op(lab("Switch", K("$V")), "1"), "1": test(lab("Case", 1), "a", "2"), "2": test(lab("Case", 2), "c", "b"),
       "a": op(a, "b"), "b": op(b, "c"), "c": op(c, "END")}, "s"))  # fmt: skip
case("grouped cases, no default", "def 0 { switch (3) { case 1: case 2: a(); break; case 3: b(); } c(); }",
     ({"s": op(lab("Switch", 3), "1"), "1": test(lab("Case", 1), "a", "2"), "2": test(lab("Case", 2), "a", "3"),
       "3": test(lab("Case", 3), "b", "c"), "a": op(a, "c"), "b": op(b, "c"), "c": op(c, "END")}, "s"))  # fmt: skip
case("a case that is only break, reached by fall-through", "def 0 { switch ($V) { case 1: a(); case 2: break; case 3: b(); } c(); }",
     ({"s": op(lab("Switch", K("$V")), "1"), "1": test(lab("Case", 1), "a", "2"), "2": test(lab("Case", 2), "c", "3"),
       "3": test(lab("Case", 3), "b", "c"), "a": op(a, "c"), "b": op(b, "c"), "c": op(c, "END")}, "s"))  # fmt: skip
case("switch headers", "def 0 { switch (scn($S)[0]) { } switch (scn($S)[1]) { } switch (random(10)) { } switch (dungeon_mode(D)) { } switch (sector()) { } switch (message_Menu(3)) { } }",
     ({"1": op(lab("SwitchScenario", K("$S")), "2"), "2": op(lab("SwitchScenarioLevel", K("$S")), "3"),
       "3": op(lab("SwitchRandom", 10), "4"), "4": op(lab("SwitchDungeonMode", K("D")), "5"), "5": op(lab("SwitchSector"), "6"),
       "6": op(lab("message_Menu", 3), "END")}, "1"))  # fmt: skip
case("case headers", """def 0 { switch ($V) { case > 9: a(); break; case == 12: a(); break; case FALSE 3: a(); break;
        case < value($T): a(); break; case menu("Hello"): a(); break; case menu({english="Yes"}): a(); break;
        case menu2(3): a(); break; case DMODE_OPEN: a(); } }""",
     ({"s": op(lab("Switch", K("$V")), "1"), "1": test(lab("CaseValue", 3, 9), "a", "2"), "2": test(lab("CaseValue", 2, 12), "a", "3"),
       "3": test(lab("CaseValue", 0, 3), "a", "4"), "4": test(lab("CaseVariable", 4, K("$T")), "a", "5"),
       "5": test(lab("CaseMenu", "Hello"), "a", "6"), "6": test(lab("CaseMenu", L(english="Yes")), "a", "7"),
       "7": test(lab("CaseMenu2", 3), "a", "8"), "8": test(lab("Case", K("DMODE_OPEN")), "a", "END"), "a": op(a, "END")}, "s"))  # fmt: skip
case("message switch: plain ops, default last", """def 0 { message_SwitchTalk ($P) { case 1: " one" default: {english="dflt"} case K: 'two' } message_SwitchMonologue (2) { case 0: "m" } a(); }""",
     ({"1": op(lab("message_SwitchTalk", K("$P")), "2"), "2": op(lab("CaseText", 1, " one"), "3"),
       "3": op(lab("CaseText", K("K"), "two"), "4"), "4": op(lab("DefaultText", L(english="dflt")), "5"),
       "5": op(lab("message_SwitchMonologue", 2), "6"), "6": op(lab("CaseText", 0, "m"), "7"), "7": op(a, "END")}, "1"))  # fmt: skip
case("forever with continue and break_loop", "def 0 { forever { a(); if (debug) { break_loop; } if (edit) { continue; } b(); } c(); }",
     ({"a": op(a, "t"), "t": test(DEBUG1, "c", "u"), "u": test(EDIT1, "a", "b"), "b": op(b, "a"), "c": op(c, "END")}, "a"))  # fmt: skip
case("while re-tests each iteration", "def 0 { while ($V < 3) { a(); } b(); }",
     ({"t": test(lab("BranchValue", K("$V"), 4, 3), "a", "b"), "a": op(a, "t"), "b": op(b, "END")}, "t"))  # fmt: skip
case("while not", "def 0 { while not (debug) { a(); continue; b(); } c(); }",
     ({"t": test(DEBUG1, "c", "a"), "a": op(a, "t"), "c": op(c, "END")}, "t"))  # fmt: skip
case("for: init once, test, body, increment; continue runs the increment", "def 0 { for ($i = 0; $i < 3; $i += 1;) { a(); if (debug) { continue; } if (edit) { break_loop; } b(); } c(); }",
     ({"i": op(lab("flag_Set", K("$i"), 0), "t"), "t": test(lab("BranchValue", K("$i"), 4, 3), "a", "c"), "a": op(a, "u"),
       "u": test(DEBUG1, "n", "w"), "w": test(EDIT1, "c", "b"), "b": op(b, "n"), "n": op(lab("flag_CalcValue", K("$i"), 2, 1), "t"),
       "c": op(c, "END")}, "i"))  # fmt: skip
case("labels, jump (also legacy paragraph label)", "def 0 { @x; a(); if (debug) { jump @x; } jump @y; b(); §y; c(); }",
     ({"a": op(a, "t"), "t": test(DEBUG1, "a", "c"), "c": op(c, "END")}, "a"))  # fmt: skip
case("call is a test: taken -> label, not taken -> next", "def 0 { call @x; a(); return; @x; b(); }",
     ({"t": test(lab("Call"), "b", "a"), "a": op(a, "r"), "r": stop(lab("Return")), "b": op(b, "END")}, "t"))  # fmt: skip
case("with blocks and inline contexts", "def 0 { with (actor A) { a(1); } with (object 3) { $V = 1; } with (performer P) { hold; } b<actor 2>(X); c<object O>(); d<performer 0>(); }",
     ({"1": op(lab("lives", K("A")), "2"), "2": op(lab("a", 1), "3"), "3": op(lab("object", 3), "4"), "4": op(lab("flag_Set", K("$V"), 1), "5"),
       "5": op(lab("performer", K("P")), "6"), "6": stop(lab("Hold"))}, "1"))  # fmt: skip
case("inline contexts", "def 0 { b<actor 2>(X); c<object O>(); d<performer 0>(); }",
     ({"1": op(lab("lives", 2), "2"), "2": op(lab("b", K("X")), "3"), "3": op(lab("object", K("O")), "4"), "4": op(c, "5"),
       "5": op(lab("performer", 0), "6"), "6": op(d, "END")}, "1"))  # fmt: skip
case("assignments", """def 0 { $V = 3; $V = value(3); $V += 3; $V -= value($W); $V *= 2; $V /= K; $V[3] = 1;
        PERFORMANCE_PROGRESS_LIST[4] = 0; $V = scn[1, 2]; clear $V; reset scn($V); reset dungeon_result; init $V;
        adventure_log = 3; dungeon_mode(3) = 3; dungeon_mode(D) = DMODE_OPEN; }""",
     ({"1": op(lab("flag_Set", K("$V"), 3), "2"), "2": op(lab("flag_CalcVariable", K("$V"), 0, 3), "3"),
       "3": op(lab("flag_CalcValue", K("$V"), 2, 3), "4"), "4": op(lab("flag_CalcVariable", K("$V"), 1, K("$W")), "5"),
       "5": op(lab("flag_CalcValue", K("$V"), 3, 2), "6"), "6": op(lab("flag_CalcValue", K("$V"), 4, K("K")), "7"),
       "7": op(lab("flag_CalcBit", K("$V"), 3, 1), "8"), "8": op(lab("flag_SetPerformance", 4, 0), "9"),
       "9": op(lab("flag_SetScenario", K("$V"), 1, 2), "10"), "10": op(lab("flag_Clear", K("$V")), "11"),
       "11": op(lab("flag_ResetScenario", K("$V")), "12"), "12": op(lab("flag_ResetDungeonResult"), "13"),
       "13": op(lab("flag_Initial", K("$V")), "14"), "14": op(lab("flag_SetAdventureLog", 3), "15"),
       "15": op(lab("flag_SetDungeonMode", 3, 3), "16"), "16": op(lab("flag_SetDungeonMode", K("D"), K("DMODE_OPEN")), "END")}, "1"))  # fmt: skip
case("macro: body inlined, parameters substituted, return continues after the call, labels private",
     """macro m($p, $q) { @again; print($p, $q, $r); if ($p == 1) { return; } if (debug) { jump @again; } tail(); }
        def 0 { ~m($X, "s"); mid(); ~m(7, Position<'P', 1, 2>); }""",
     ({"p1": op(lab("print", K("$X"), "s", K("$r")), "t1"), "t1": test(lab("Branch", K("$X"), 1), "mid", "u1"),
       "u1": test(DEBUG1, "p1", "l1"), "l1": op(lab("tail"), "mid"), "mid": op(lab("mid"), "p2"),
       "p2": op(lab("print", 7, PM("P", 0, 0, 1, 2), K("$r")), "t2"), "t2": test(lab("Branch", 7, 1), "END", "u2"),
       "u2": test(DEBUG1, "p2", "l2"), "l2": op(lab("tail"), "END")}, "p1"))  # fmt: skip
case("nested macros (defined after use), substitution through two levels",
     """def 0 { ~outer(5); z(); }  macro outer($a) { before($a); ~inner($a, 1); after(); }  macro inner($x, $y) { $x = $y; if ($y > 0) { return; } never(); }""",
     ({"1": op(lab("before", 5), "2"), "2": op(lab("flag_Set", 5, 1), "3"), "3": test(lab("BranchValue", 1, 3, 0), "5", "4"),
       "4": op(lab("never"), "5"), "5": op(lab("after"), "6"), "6": op(lab("z"), "END")}, "1"))  # fmt: skip
case("break refers to the case also from inside a loop; continue to the loop from inside a switch",
     "def 0 { forever { switch ($V) { case 1: forever { a(); break; } case 2: continue; } b(); } }",
     ({"s": op(lab("Switch", K("$V")), "1"), "1": test(lab("Case", 1), "a", "2"), "2": test(lab("Case", 2), "s", "b"),
       "a": op(a, "b"), "b": op(b, "s")}, "s"))  # fmt: skip
case("routine kinds, ids and targets", "def 0 { a(); } def 1 for actor ACTOR_X { b(); } def 2 for object 7 { c(); } def 3 for_performer(0x10) { d(); } def 4 for performer (P) { a(); }",
     ({"1": op(a, "END")}, "1"), ({"1": op(b, "END")}, "1"), ({"1": op(c, "END")}, "1"), ({"1": op(d, "END")}, "1"), ({"1": op(a, "END")}, "1"),
     headers=[(0, SsbRoutineType.GENERIC, None, None, False), (1, SsbRoutineType.ACTOR, "ACTOR_X", None, False),
              (2, SsbRoutineType.OBJECT, 7, None, False), (3, SsbRoutineType.PERFORMER, 16, None, False),
              (4, SsbRoutineType.PERFORMER, "P", None, False)])  # fmt: skip
case("coroutines are numbered in source order; alias uses the previous routine's operations",
     "coro FIRST { a(); } coro SECOND { alias previous; } coro THIRD { b(); }",
     ({"1": op(a, "END")}, "1"), ({"1": op(a, "END")}, "1"), ({"1": op(b, "END")}, "1"),
     headers=[(0, SsbRoutineType.COROUTINE, None, "FIRST", False), (1, SsbRoutineType.COROUTINE, None, "SECOND", True),
              (2, SsbRoutineType.COROUTINE, None, "THIRD", False)])  # fmt: skip
case("labels are global: jump into another routine", "def 0 { a(); jump @far; } def 1 { b(); @far; c(); }",
     ({"1": op(a, "2"), "2": op(c, "END")}, "1"), ({"1": op(b, "2"), "2": op(c, "END")}, "1"))  # fmt: skip
case("comments, line joining and layout do not matter", "def 0 { /* c */ a(); // x\n if ( debug )\n { b ( ) ; } }",
     ({"1": op(a, "t"), "t": test(DEBUG1, "b", "END"), "b": op(b, "END")}, "1"))  # fmt: skip
case("with block around jump and return", "def 0 { @x; with (actor 1) { jump @x; } }",
     ({"1": op(lab("lives", 1), "1")}, "1"))  # fmt: skip
case("multi line strings are dedented", 'def 0 { a("""\n    First\n      Second\n    """); }', ({"1": op(lab("a", "First\n  Second"), "END")}, "1"))

STATIC_ERRORS = [
    ("not on a bit of an ordinary variable", "def 0 { if (not $V[3]) { a(); } }"),
    ("break outside a case", "def 0 { break; }"),
    ("continue outside a loop", "def 0 { switch ($V) { case 1: continue; } }"),
    ("jump to an undefined label", "def 0 { jump @nowhere; }"),
    ("label defined twice", "def 0 { @x; a(); @x; }"),
    ("two defaults", "def 0 { switch ($V) { default: a(); default: b(); } }"),
    ("string case in a regular switch", 'def 0 { switch ($V) { case 1: "text" } }'),
    ("statement case in a message switch", "def 0 { message_SwitchTalk ($V) { case 1: a(); } }"),
    ("scenario check with !=", "def 0 { if (scn($S) != [1, 2]) { a(); } }"),
    ("label inside a with block", "def 0 { with (actor 1) { @x; } }"),
    ("inline context inside a with block", "def 0 { with (actor 1) { a<actor 2>(); } }"),
    ("unknown macro", "def 0 { ~nope(); }"),
    ("macro recursion", "macro m() { ~m(); } def 0 { ~m(); }"),
    ("scn switch index 2", "def 0 { switch (scn($S)[2]) { } }"),
    ("reserved opcode as plain operation", "def 0 { Branch(1, 2); }"),
    ("unknown context kind", "def 0 { with (monster 1) { a(); } }"),
]


# ---------------------------------------------------------------------------------------- runner
def mutants(nodes: dict, entry: str):
    """behaviour-changing mutants of an expected LTS: rename the first reachable op / stop, swap the first test whose
    successors differ"""
    order = []
    seen = set()
    stack = [entry]
    while stack:
        n = stack.pop()
        if n in seen:
            continue
        seen.add(n)
        order.append(n)
        stack.extend(reversed(nodes[n].succ))
    for n in order:
        if nodes[n].kind in ("op", "stop"):
            m = dict(nodes)
            m[n] = Node(nodes[n].kind, ("MUTANT", ()), nodes[n].succ)
            yield m
            break
    for n in order:
        if nodes[n].kind == "test" and nodes[n].succ[0] != nodes[n].succ[1]:
            m = dict(nodes)
            m[n] = Node("test", nodes[n].label, (nodes[n].succ[1], nodes[n].succ[0]))
            if equiv(nodes, nodes[n].succ[0], nodes, nodes[n].succ[1]) is not None:
                yield m
            break


def run() -> int:
    failures = 0
    for name, text, routines, headers in CASES:
        try:
            prog = esast.parse(text)
            nodes, entries, hdrs = sem(prog)
            assert len(entries) == len(routines), f"{len(entries)} routines, expected {len(routines)}"
            for ri, (spec, entry) in enumerate(routines):
                exp = build(spec)
                reachable_labels(exp, entry)
                path = equiv(nodes, entries[ri], exp, entry)
                assert path is None, f"routine {ri}: sem differs from the expected LTS: {path}"
                n_mut = 0
                for m in mutants(exp, entry):
                    n_mut += 1
                    assert equiv(nodes, entries[ri], m, entry) is not None, f"routine {ri}: a mutant was not detected"
                assert n_mut > 0, "no mutant could be built"
            if headers is not None:
                got = [(h["id"], h["kind"], h["target"], h["coroutine"], h["alias"]) for h in hdrs]
                assert got == headers, f"headers {got} != {headers}"
            back = esast.parse(to_text(prog))
            assert back == prog, "printer/parser round trip changed the AST"
        except Exception as e:  # noqa: BLE001
            failures += 1
            print(f"FAIL {name}: {type(e).__name__}: {e}")
    for name, text in STATIC_ERRORS:
        try:
            sem(esast.parse(text))
        except StaticError:
            continue
        except Exception as e:  # noqa: BLE001
            failures += 1
            print(f"FAIL static error case {name}: {type(e).__name__}: {e}")
            continue
        failures += 1
        print(f"FAIL static error case {name}: accepted")
    # positions: zero-based line and column of the first token of statements and headers
    prog = esast.parse("def 0 {\n  a();\n  if (debug) {\n    b();\n  } elseif not (edit) { }\n  switch ($V) {\n    case 1: c();\n  }\n}\n")
    body = prog.routines[0].body
    got = [prog.routines[0].pos, body[0].pos, body[1].pos, body[1].branches[0].conds[0].pos, body[1].branches[0].body[0].pos,
           body[1].branches[1].pos, body[2].pos, body[2].header.pos, body[2].cases[0].pos, body[2].cases[0].header.pos,
           body[2].cases[0].body[0].pos]  # fmt: skip
    want = [(0, 0), (1, 2), (2, 2), (2, 6), (3, 4), (4, 4), (5, 2), (5, 10), (6, 4), (6, 9), (6, 12)]
    if got != want:
        failures += 1
        print(f"FAIL positions: {got} != {want}")
    print(f"selftest_sem: {len(CASES)} programs with expected LTS, {len(STATIC_ERRORS)} static error cases, {failures} failures")
    return 1 if failures else 0


if __name__ == "__main__":
    sys.exit(run())
