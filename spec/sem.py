"""Reference semantics of ExplorerScript: AST (spec/esast.py) -> LTS in the representation of spec/machine.py.

Written from docs/language_spec.rst.  Where the language specification does not pin the opcode or the parameter order
of a form, the decompiler's printers (`_if_header_for`, `_switch_header_for`, `_case_header_for`,
`FlagSimpleOpWriteHandler`, `CtxSimpleOpWriteHandler`, the message switch writers) are used as the second, independent
statement of it.  Nothing here is derived from (or imports) the compile handlers.

    sem(program) -> (nodes, entries, routine_headers)

nodes:   id -> machine.Node(kind, label, succ)     kind in op | test | stop | silent
         op/test/stop labels are (opcode name, tuple(param_key(p) ...)) WITHOUT any jump target parameter;
         a test node has the successors (taken, not_taken).
entries: one entry node id per routine, in source order of the routines (for `alias previous` routines: the entry of
         the routine with the preceding id, as the language spec defines aliases).
routine_headers: one dict per routine, same order:
         {"id": table index, "kind": SsbRoutineType, "target": int | str | None, "coroutine": str | None, "alias": bool}

Reading of the specification (every choice that is not literally in the text is listed in CHOICES below).
"""
from __future__ import annotations

from dataclasses import dataclass, replace
from typing import Any, Hashable, Optional

from explorerscript.ssb_converting.ssb_data_types import SsbCalcOperator, SsbOperator, SsbRoutineType
from explorerscript.ssb_converting.ssb_special_ops import OPS_BRANCH, OPS_WITH_JUMP_TO_MEM_OFFSET

from spec import esast as A
from spec.machine import IMPLICIT_RETURN, STOP_OPS, Node, param_key

CHOICES = [
    "reset: the spec's prose says `reset $VAR` -> flag_Reset; grammar and decompiler say `reset scn($VAR)` -> "
    "flag_ResetScenario [var]; the latter is used (the former is not even parseable).",
    "switch(scn($V)[i]): the spec shows `switch(scn($VAR))`; grammar and decompiler require an index: [0] -> "
    "SwitchScenario, [1] -> SwitchScenarioLevel.",
    "`debug`/`edit`/`variation` -> Branch*(1), with the inner `not` -> Branch*(0) (decompiler: params[0] > 0 prints the "
    "positive form); PERFORMANCE_PROGRESS_LIST[n] -> BranchPerformance(n, 1), `not` -> (n, 0).",
    "operators are encoded by SsbOperator / SsbCalcOperator values (the decompiler prints SsbOperator(p).notation).",
    "message switches: CaseText ops in source order, DefaultText after all of them wherever `default:` is written "
    "(analogous to regular switches, where the position of `default` does not change the test order).",
    "labels are global to the program (jumps may cross routines; C03 names cross-routine jumps); labels inside a macro "
    "are private to each expansion.",
    "`break` refers to the lexically innermost enclosing case block, also from inside a loop nested in the case; "
    "`continue`/`break_loop` refer to the innermost enclosing loop, also from inside a switch nested in the loop.",
    "operation as if-condition: the op name must be one of the branch opcodes (a condition needs a two-way op).",
    "bit assignment is only defined for `=` (the spec shows no other operator).",
    "case OP VALUE is CaseValue, except under switch (scn($V)[0]) (SwitchScenario) where it is CaseScenario with the same "
    "parameters (docs/language_spec.rst, 'Check against operator', as amended by the fix: commit that documents the "
    "compiler's deliberate special case); case_scenario=False gives the old undocumented-exception reading.",
]


class StaticError(Exception):
    """The program is not statically valid (or uses a form the specification leaves undefined)."""


_COND_OP = {o.notation: o.value for o in SsbOperator}
_CALC_OP = {o.notation: o.value for o in SsbCalcOperator}
_SCN_BRANCH = {
    "==": "BranchScenarioNow",
    ">=": "BranchScenarioNowAfter",
    "<=": "BranchScenarioNowBefore",
    ">": "BranchScenarioAfter",
    "<": "BranchScenarioBefore",
}
_CTX_OP = {"actor": "lives", "object": "object", "performer": "performer"}
_ROUTINE_KIND = {"actor": SsbRoutineType.ACTOR, "object": SsbRoutineType.OBJECT, "performer": SsbRoutineType.PERFORMER}
# Opcodes that have a spelling of their own (jumps, branches, cases, calls: labels and block headers; Return / End / Hold: the
# keywords) can not be written as plain operations.  JumpCommon and Destroy end the flow of a routine as well (machine.STOP_OPS)
# but the language has no other spelling for them than a plain operation `JumpCommon(n);` / `Destroy();` - and the decompiler
# prints them like that -, so they are plain operations after which nothing of the routine is performed.
FLOW_ENDING_PLAIN_OPS = ("JumpCommon", "Destroy")
RESERVED_PLAIN_OP_NAMES = (set(OPS_WITH_JUMP_TO_MEM_OFFSET) | set(STOP_OPS)) - set(FLOW_ENDING_PLAIN_OPS)


@dataclass(frozen=True)
class _Env:
    loop_continue: Optional[Hashable] = None
    loop_break: Optional[Hashable] = None
    case_break: Optional[Hashable] = None
    macro_return: Optional[Hashable] = None
    scope: str = ""
    subst: tuple = ()  # ((name, value), ...)
    macro_stack: tuple = ()
    switch_is_scenario: bool = False  # only for the case_scenario option
    in_with: bool = False  # only for the ctx_continues option: the statement is the one statement of a with-block


def env_in_with(env) -> bool:
    return bool(getattr(env, "in_with", False))


class _Builder:
    ctx_continues = False  # see sem(..., ctx_continues=True)

    def __init__(self, macros: dict, perf_var: str, case_scenario: bool):
        self.nodes: dict[Hashable, Node] = {}
        self.n = 0
        self.macros = macros
        self.perf_var = perf_var
        self.case_scenario = case_scenario
        self.label_refs: list[Hashable] = []
        self.expansions = 0
        # source positions of the AST node each LTS node came from (for the source map properties)
        self.origin: dict[Hashable, Any] = {}

    # -- helpers
    def fresh(self) -> Hashable:
        self.n += 1
        return ("s", self.n)

    def add(self, kind: str, label: tuple, succ: tuple, origin: Any = None) -> Hashable:
        nid = self.fresh()
        self.nodes[nid] = Node(kind, label, succ)
        if origin is not None:
            self.origin[nid] = origin
        return nid

    def val(self, v: Any, env: _Env) -> Any:
        if isinstance(v, A.Const):
            for name, value in env.subst:
                if name == v.name:
                    return value
        return v

    def key(self, v: Any, env: _Env) -> tuple:
        if isinstance(v, int) and not isinstance(v, bool):
            return param_key(v)
        return param_key(A.to_param(self.val(v, env)))

    def label(self, name: str, params: list, env: _Env) -> tuple:
        return (name, tuple(self.key(p, env) for p in params))

    def is_perf(self, v: Any) -> bool:
        return isinstance(v, A.Const) and v.name == self.perf_var

    # -- labels of the forms
    def plain_op_label(self, op: A.Op, env: _Env) -> tuple:
        if op.name in RESERVED_PLAIN_OP_NAMES:
            raise StaticError(f"operation {op.name} is reserved for control flow syntax")
        return self.label(op.name, list(op.args), env)

    def ctx_label(self, c: A.CtxHeader, env: _Env) -> tuple:
        if c.kind not in _CTX_OP:
            raise StaticError(f"invalid context type {c.kind}")
        return self.label(_CTX_OP[c.kind], [c.target], env)

    def cond_label(self, c: Any, env: _Env) -> tuple:
        if isinstance(c, A.CondOp):
            opv = _COND_OP[c.operator]
            if c.value_is_var:
                return self.label("BranchVariable", [c.var, opv, c.value], env)
            if c.operator == "==":
                return self.label("Branch", [c.var, c.value], env)
            return self.label("BranchValue", [c.var, opv, c.value], env)
        if isinstance(c, A.CondBit):
            if self.is_perf(c.var):
                return self.label("BranchPerformance", [c.index, 0 if c.negated else 1], env)
            if c.negated:
                raise StaticError("`not` on a bit check is only allowed for the performance progress list")
            return self.label("BranchBit", [c.var, c.index], env)
        if isinstance(c, A.CondSpecial):
            name = {"debug": "BranchDebug", "edit": "BranchEdit", "variation": "BranchVariation"}[c.kind]
            return self.label(name, [0 if c.negated else 1], env)
        if isinstance(c, A.CondScn):
            if c.operator not in _SCN_BRANCH:
                raise StaticError("scenario checks only support == < > <= >=")
            return self.label(_SCN_BRANCH[c.operator], [c.var, c.scenario, c.level], env)
        if isinstance(c, A.CondOperation):
            if c.op.ctx is not None:
                raise StaticError("operation used as condition with inline context")
            if c.op.name not in OPS_BRANCH:
                raise StaticError(f"operation {c.op.name} can not be used as condition")
            return self.label(c.op.name, list(c.op.args), env)
        raise TypeError(c)

    def switch_label(self, h: Any, env: _Env) -> tuple:
        if isinstance(h, A.SwVar):
            return self.label("Switch", [h.value], env)
        if isinstance(h, A.SwOperation):
            if h.op.ctx is not None:
                raise StaticError("operation used as switch header with inline context")
            return self.plain_op_label(h.op, env)
        if isinstance(h, A.SwScn):
            if h.index == 0:
                return self.label("SwitchScenario", [h.var], env)
            if h.index == 1:
                return self.label("SwitchScenarioLevel", [h.var], env)
            raise StaticError("scn() switch index must be 0 or 1")
        if isinstance(h, A.SwRandom):
            return self.label("SwitchRandom", [h.value], env)
        if isinstance(h, A.SwDungeonMode):
            return self.label("SwitchDungeonMode", [h.value], env)
        if isinstance(h, A.SwSector):
            return ("SwitchSector", ())
        raise TypeError(h)

    def case_label(self, h: Any, env: _Env) -> tuple:
        if isinstance(h, A.CaseVal):
            return self.label("Case", [h.value], env)
        if isinstance(h, A.CaseMenu):
            return self.label("CaseMenu", [h.text], env)
        if isinstance(h, A.CaseMenu2):
            return self.label("CaseMenu2", [h.value], env)
        if isinstance(h, A.CaseOp):
            opv = _COND_OP[h.operator]
            if h.value_is_var:
                return self.label("CaseVariable", [opv, h.value], env)
            if self.case_scenario and env.switch_is_scenario:
                return self.label("CaseScenario", [opv, h.value], env)
            return self.label("CaseValue", [opv, h.value], env)
        raise TypeError(h)

    def assign_label(self, s: Any, env: _Env) -> tuple:
        if isinstance(s, A.AssignRegular):
            if s.index is not None:
                if s.value_is_var:
                    raise StaticError("value(X) can not be used with bit assignments")
                if s.operator != "=":
                    raise StaticError("bit assignments are only defined for `=`")
                if self.is_perf(s.var):
                    return self.label("flag_SetPerformance", [s.index, s.value], env)
                return self.label("flag_CalcBit", [s.var, s.index, s.value], env)
            opv = _CALC_OP[s.operator]
            if s.value_is_var:
                return self.label("flag_CalcVariable", [s.var, opv, s.value], env)
            if s.operator == "=":
                return self.label("flag_Set", [s.var, s.value], env)
            return self.label("flag_CalcValue", [s.var, opv, s.value], env)
        if isinstance(s, A.AssignClear):
            return self.label("flag_Clear", [s.var], env)
        if isinstance(s, A.AssignInit):
            return self.label("flag_Initial", [s.var], env)
        if isinstance(s, A.AssignReset):
            if s.scn_var is None:
                return ("flag_ResetDungeonResult", ())
            return self.label("flag_ResetScenario", [s.scn_var], env)
        if isinstance(s, A.AssignAdvLog):
            return self.label("flag_SetAdventureLog", [s.value], env)
        if isinstance(s, A.AssignDungeonMode):
            return self.label("flag_SetDungeonMode", [s.dungeon, s.value], env)
        if isinstance(s, A.AssignScn):
            return self.label("flag_SetScenario", [s.var, s.scenario, s.level], env)
        raise TypeError(s)

    # -- control
    def seq(self, stmts: tuple, k: Hashable, env: _Env) -> Hashable:
        for s in reversed(stmts):
            k = self.stmt(s, k, env)
        return k

    def tests(self, conds: tuple, negated: bool, block: Hashable, other: Hashable, env: _Env) -> Hashable:
        """`c1 || c2 || ...` (optionally negated as a whole): entry of the chain of tests.
        positive: any taken -> block, all not taken -> other.   negated: any taken -> other, none -> block."""
        nxt = block if negated else other
        for c in reversed(conds):
            lab = self.cond_label(c, env)
            succ = (other, nxt) if negated else (block, nxt)
            nxt = self.add("test", lab, succ, c)
        return nxt

    def stmt(self, s: Any, k: Hashable, env: _Env) -> Hashable:
        if isinstance(s, A.Op):
            if s.name in FLOW_ENDING_PLAIN_OPS and not (self.ctx_continues and (s.ctx is not None or env_in_with(env))):
                n = self.add("stop", self.plain_op_label(s, env), (), s)
            else:
                n = self.add("op", self.plain_op_label(s, env), (k,), s)
            if s.ctx is not None:
                n = self.add("op", self.ctx_label(s.ctx, env), (n,), s)
            return n
        if isinstance(s, A.ASSIGNMENTS):
            return self.add("op", self.assign_label(s, env), (k,), s)
        if isinstance(s, A.Label):
            lid = ("L", env.scope, s.name)
            if lid in self.nodes:
                raise StaticError(f"label {s.name} defined twice")
            self.nodes[lid] = Node("silent", (), (k,))
            return lid
        if isinstance(s, A.Jump):
            lid = ("L", env.scope, s.name)
            self.label_refs.append(lid)
            return self.add("silent", (), (lid,), s)
        if isinstance(s, A.Call):
            lid = ("L", env.scope, s.name)
            self.label_refs.append(lid)
            return self.add("test", ("Call", ()), (lid, k), s)
        if isinstance(s, A.Ctrl):
            if s.kind == "return":
                if env.macro_return is not None:
                    return self.add("silent", (), (env.macro_return,), s)
                return self.add("stop", ("Return", ()), (), s)
            if s.kind == "end":
                return self.add("stop", ("End", ()), (), s)
            if s.kind == "hold":
                return self.add("stop", ("Hold", ()), (), s)
            target = {"continue": env.loop_continue, "break_loop": env.loop_break, "break": env.case_break}[s.kind]
            if target is None:
                raise StaticError(f"unexpected {s.kind}")
            return self.add("silent", (), (target,), s)
        if isinstance(s, A.With):
            inner = s.stmt
            if isinstance(inner, A.Label):
                raise StaticError("a with block can not contain labels")
            if isinstance(inner, A.Op) and inner.ctx is not None:
                raise StaticError("an operation inside a with block can not have an inline context")
            if self.ctx_continues and isinstance(inner, A.Ctrl) and inner.kind in ("return", "end", "hold") and not (inner.kind == "return" and env.macro_return is not None):
                # the statement of a with-block is run in the context of the actor / object / performer: its Return / End /
                # Hold is performed there, the routine itself goes on behind the block
                n = self.add("op", ({"return": "Return", "end": "End", "hold": "Hold"}[inner.kind], ()), (k,), inner)
            else:
                n = self.stmt(inner, k, replace(env, in_with=True) if self.ctx_continues else env)
            return self.add("op", self.ctx_label(s.ctx, env), (n,), s)
        if isinstance(s, A.If):
            nxt = self.seq(s.else_body, k, env) if s.else_body is not None else k
            for br in reversed(s.branches):
                block = self.seq(br.body, k, env)
                nxt = self.tests(br.conds, br.negated, block, nxt, env)
            return nxt
        if isinstance(s, A.Switch):
            return self.switch(s, k, env)
        if isinstance(s, A.MessageSwitch):
            return self.message_switch(s, k, env)
        if isinstance(s, A.Forever):
            head = self.fresh()
            body = self.seq(s.body, head, replace(env, loop_continue=head, loop_break=k))
            self.nodes[head] = Node("silent", (), (body,))
            return head
        if isinstance(s, A.While):
            head = self.fresh()
            body = self.seq(s.body, head, replace(env, loop_continue=head, loop_break=k))
            lab = self.cond_label(s.cond, env)
            self.nodes[head] = Node("test", lab, (k, body) if s.negated else (body, k))
            self.origin[head] = s.cond
            return head
        if isinstance(s, A.For):
            for part in (s.init, s.incr):
                if isinstance(part, (A.Label, A.Jump, A.Call, A.Ctrl)):
                    raise StaticError("for-loop init/increment must be an operation or assignment")
            head = self.fresh()
            incr = self.stmt(s.incr, head, env)
            body = self.seq(s.body, incr, replace(env, loop_continue=incr, loop_break=k))
            self.nodes[head] = Node("test", self.cond_label(s.cond, env), (body, k))
            self.origin[head] = s.cond
            return self.stmt(s.init, head, env)
        if isinstance(s, A.MacroCall):
            return self.macro_call(s, k, env)
        raise TypeError(f"not a statement: {s!r}")

    def switch(self, s: A.Switch, k: Hashable, env: _Env) -> Hashable:
        if sum(1 for c in s.cases if c.header is None) > 1:
            raise StaticError("a switch can only have a single default case")
        if any(c.text is not None for c in s.cases):
            raise StaticError("a switch case must contain statements")
        header = self.switch_label(s.header, env)
        inner = replace(env, case_break=k, switch_is_scenario=header[0] == "SwitchScenario")
        # bodies in source order, each falling through into the next one, the last one into the end of the switch
        nxt = k
        entries: list[Hashable] = [None] * len(s.cases)  # type: ignore
        for i in range(len(s.cases) - 1, -1, -1):
            nxt = self.seq(s.cases[i].body, nxt, inner)
            entries[i] = nxt
        # tests in source order; when all fail: the default body if there is one, else the end of the switch
        fail = k
        for i, c in enumerate(s.cases):
            if c.header is None:
                fail = entries[i]
        nxt = fail
        for i in range(len(s.cases) - 1, -1, -1):
            c = s.cases[i]
            if c.header is not None:
                nxt = self.add("test", self.case_label(c.header, inner), (entries[i], nxt), c.header)
        return self.add("op", header, (nxt,), s.header)

    def message_switch(self, s: A.MessageSwitch, k: Hashable, env: _Env) -> Hashable:
        if sum(1 for c in s.cases if c.header is None) > 1:
            raise StaticError("a switch can only have a single default case")
        ordered = [c for c in s.cases if c.header is not None] + [c for c in s.cases if c.header is None]
        nxt = k
        for c in reversed(ordered):
            if c.text is None:
                raise StaticError("a message switch case must contain a string")
            if c.header is None:
                nxt = self.add("op", self.label("DefaultText", [c.text], env), (nxt,), c)
            else:
                if not isinstance(c.header, A.CaseVal):
                    raise StaticError("only value case headers are allowed in message switches")
                nxt = self.add("op", self.label("CaseText", [c.header.value, c.text], env), (nxt,), c)
        return self.add("op", self.label(s.kind, [s.value], env), (nxt,), s)

    def macro_call(self, s: A.MacroCall, k: Hashable, env: _Env) -> Hashable:
        if s.name not in self.macros:
            raise StaticError(f"macro {s.name} not found")
        if s.name in env.macro_stack:
            raise StaticError("macro recursion")
        m = self.macros[s.name]
        if m.body is None:
            raise StaticError("macros can not alias")
        if len(s.args) != len(m.params):
            raise StaticError("macro call with a wrong number of arguments")
        self.expansions += 1
        args = tuple(self.val(a, env) for a in s.args)
        inner = _Env(
            macro_return=k,
            scope=f"{env.scope}/{s.name}#{self.expansions}",
            subst=tuple(zip(m.params, args)),
            macro_stack=env.macro_stack + (s.name,),
        )
        return self.seq(m.body, k, inner)


def routine_headers(program: A.Program) -> list:
    out = []
    last_id = -1
    for r in program.routines:
        if r.kind == "coro":
            rid = last_id + 1
            h = {"id": rid, "kind": SsbRoutineType.COROUTINE, "target": None, "coroutine": r.name}
        elif r.target_kind is None:
            rid = r.id
            h = {"id": rid, "kind": SsbRoutineType.GENERIC, "target": None, "coroutine": None}
        else:
            rid = r.id
            if r.target_kind not in _ROUTINE_KIND:
                raise StaticError("a targeted routine must be for an actor, object or performer")
            if isinstance(r.target, A.Int):
                target: Any = r.target.value
            elif isinstance(r.target, A.Const):
                target = r.target.name
            else:
                raise StaticError("routine target must be an integer or a constant")
            h = {"id": rid, "kind": _ROUTINE_KIND[r.target_kind], "target": target, "coroutine": None}
        h["alias"] = r.body is None
        last_id = rid
        out.append(h)
    return out


def sem(
    program: A.Program,
    perf_var: str = "PERFORMANCE_PROGRESS_LIST",
    case_scenario: bool = True,
    extra_macros: Optional[dict] = None,
    with_origin: bool = False,
    ctx_continues: bool = False,
) -> tuple:
    """Reference LTS of every routine of `program`; see the module docstring.

    extra_macros: macros that come from imported files (name -> esast.Macro).
    with_origin: additionally return {node id: AST node it was generated from} as 4th element.
    """
    macros = dict(extra_macros or {})
    for m in program.macros:
        macros[m.name] = m
    b = _Builder(macros, perf_var, case_scenario)
    # ctx_continues (C01's refinement): a flow-ending statement inside a with-block / with an inline context is performed in
    # the context of the actor / object / performer and does not end the routine
    b.ctx_continues = ctx_continues
    headers = routine_headers(program)
    ids = [h["id"] for h in headers]
    if len(set(ids)) != len(ids):
        raise StaticError("routine id used twice")
    entries: list = []
    by_id: dict = {}
    for r, h in zip(program.routines, headers):
        if r.body is None:
            entries.append(None)
            continue
        end = b.add("stop", IMPLICIT_RETURN, ())
        e = b.seq(r.body, end, _Env())
        entries.append(e)
        by_id[h["id"]] = e
    # aliases: "use the same operations as the routine before it (by index number)"
    for i, (r, h) in enumerate(zip(program.routines, headers)):
        if r.body is None:
            j = h["id"] - 1
            alias_of = {hh["id"]: hh for hh in headers}
            while j in alias_of and alias_of[j]["alias"]:
                j -= 1
            if j not in by_id:
                raise StaticError("alias without a previous routine")
            entries[i] = by_id[j]
    for lid in b.label_refs:
        if lid not in b.nodes:
            raise StaticError(f"jump to undefined label {lid[2]}")
    if with_origin:
        return b.nodes, entries, headers, b.origin
    return b.nodes, entries, headers
