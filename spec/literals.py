"""Reference semantics of ExplorerScript literals, written from docs/language_spec.rst ("Data Types") and the token
definitions in explorerscript/antlr/SsbCommon.g4 -- NOT from the compile handlers / reader functions.

Trusted spec functions for the converse half of C04 ("each literal spelling parses to the value the specification
gives") and for C16 (which spellings denote the same value).  No import of explorerscript.

Where the specification is silent or ambiguous the functions return a *set* of admissible values and say so in the
docstring; a check may only flag a result that is outside the set.
"""
from __future__ import annotations

import re
from fractions import Fraction

# ------------------------------------------------------------------------------------------------------------ tokens
# Regexes transcribed from SsbCommon.g4 (lexer rules INTEGER, DECIMAL, STRING_LITERAL, MULTILINE_STRING_LITERAL).
INTEGER_RE = re.compile(r"-?(?:[1-9][0-9]*|0[oO][0-7]+|0[xX][0-9a-fA-F]+|0[bB][01]+|0+)")
DECIMAL_RE = re.compile(r"-?[0-9]*\.[0-9]+")
SQ_STRING_RE = re.compile(r"'(?:\\.|[^\\\r\n\f'])*'", re.S)
DQ_STRING_RE = re.compile(r'"(?:\\.|[^\\\r\n\f"])*"', re.S)


def is_integer_spelling(s: str) -> bool:
    return INTEGER_RE.fullmatch(s) is not None


def is_decimal_spelling(s: str) -> bool:
    return DECIMAL_RE.fullmatch(s) is not None


# ---------------------------------------------------------------------------------------------------------- integers
def integer_value(spelling: str) -> int:
    """language_spec.rst "Integer": base 10, '-' for negatives, 0x base 16, 0o base 8, 0b base 2.  The size is unrestricted."""
    assert is_integer_spelling(spelling), spelling
    s = spelling
    neg = s.startswith("-")
    if neg:
        s = s[1:]
    digits = "0123456789abcdef"
    if len(s) > 1 and s[1] in "xX":
        base, body = 16, s[2:]
    elif len(s) > 1 and s[1] in "oO":
        base, body = 8, s[2:]
    elif len(s) > 1 and s[1] in "bB":
        base, body = 2, s[2:]
    else:
        base, body = 10, s
    v = 0
    for ch in body.lower():
        d = digits.index(ch)
        assert d < base
        v = v * base + d
    return -v if neg else v


# ------------------------------------------------------------------------------------------------------- fixed point
def decimal_value(spelling: str) -> tuple[Fraction, bool]:
    """language_spec.rst "Fixed Point Value": a base 10 number with decimal places ('.12', '1.12', '-.12', '-1.12').

    Returns (exact numeric value, written_negative).  Leading zeros of the whole part and trailing zeros of the fraction do
    not change the numeric value; '-0.x' is a negative number (and '-0.0' is zero written with a minus sign).
    """
    assert is_decimal_spelling(spelling), spelling
    s = spelling
    neg = s.startswith("-")
    if neg:
        s = s[1:]
    whole, fract = s.split(".")
    w = 0
    for ch in whole:
        w = w * 10 + "0123456789".index(ch)
    f = Fraction(0)
    for k, ch in enumerate(fract):
        f += Fraction("0123456789".index(ch), 10 ** (k + 1))
    v = w + f
    return (-v if neg else v), neg


def printed_decimal_value(text: str) -> Fraction:
    """Numeric value of the text of a fixed point parameter ('12.0034', '-0.5', also what str(float) gives: '1e-05')."""
    return Fraction(text)


# ---------------------------------------------------------------------------------------------------- position marks
def position_arg_value(spelling: str) -> tuple[int, int] | None:
    """language_spec.rst "Position Marks": an X/Y attribute is a position that 'can have the suffix .5'; the SSB parameter
    is (position with the decimal place stripped, offset 2 [or 4] if it ends on '.5' else 0).

    Returns (relative, offset in {0, 2}) or None if the spelling is not an integer or an integer followed by the decimal
    place .5 / .0 (trailing zeros allowed: '456.500' is in the repository's own tests) -- then the spec gives no value and the
    compiler is expected to reject it.  The sign applies to the position: '-1.5' is (-1, 2).  For '-0.5' / '-.5' the SSB pair
    cannot carry the sign (relative 0); that value is reported as (0, 2) with the caveat that the sign is lost.
    """
    if is_integer_spelling(spelling):
        return integer_value(spelling), 0
    if not is_decimal_spelling(spelling):
        return None
    s = spelling
    neg = s.startswith("-")
    if neg:
        s = s[1:]
    whole, fract = s.split(".")
    fract_stripped = fract.rstrip("0")
    if fract_stripped not in ("", "5"):
        return None
    rel = int(whole) if whole else 0
    return (-rel if neg else rel), (2 if fract_stripped == "5" else 0)


# ----------------------------------------------------------------------------------------------- single-line strings
def single_line_value(literal: str) -> str:
    """Value of a STRING_LITERAL token (including its quotes).

    Documented (language_spec.rst "(Constant) Strings"): the text between the quotes; '\\n' inserts a newline.  The grammar
    makes backslash + any character one STRING_ESCAPE_SEQ so that a quote can be written inside the string; the repository's
    own tests fix that \\" and \\' give the quote character and that a doubled backslash stays doubled (backslash does not
    escape itself).  Hence, scanning left to right: backslash+n -> newline, backslash+quote -> the quote, any other backslash
    is an ordinary character (and the character after it is scanned normally).
    """
    assert SQ_STRING_RE.fullmatch(literal) or DQ_STRING_RE.fullmatch(literal), literal
    body = literal[1:-1]
    out = []
    i = 0
    while i < len(body):
        ch = body[i]
        if ch == "\\" and i + 1 < len(body) and body[i + 1] in "n'\"":
            out.append("\n" if body[i + 1] == "n" else body[i + 1])
            i += 2
        else:
            out.append(ch)
            i += 1
    return "".join(out)


# ------------------------------------------------------------------------------------------------ multi-line strings
#: characters that are certainly not "new lines" of a source text although Python's str.splitlines() splits on them
NOT_NEWLINES = ("\x0b", "\x1c", "\x1d", "\x1e", "\x85", "\u2028", "\u2029")
#: characters for which the spec is silent (the grammar's LINE_JOINING rule treats \r, \r\n and \f as line ends)
MAYBE_NEWLINES = ("\r", "\x0c")


def _indent_len(line: str, blanks: str) -> int:
    n = 0
    while n < len(line) and line[n] in blanks:
        n += 1
    return n


def _dedent(lines: list[str], blanks: str) -> str:
    """The four rules of language_spec.rst on an explicit list of lines (first = text after the opening quotes)."""
    if len(lines) == 1:
        # One line only: it is the first line, "indentation ... is preserved".
        return lines[0]
    first, middle, last = lines[0], lines[1:-1], lines[-1]
    # "The indentation in the last line ... is fully removed if it only consists of whitespace characters."
    last_is_blank = _indent_len(last, blanks) == len(last)
    others = list(middle)
    if not last_is_blank:
        # "If the last line does not fully consist of whitespace characters, this also applies to it."
        others.append(last)
    # "For all other lines, the least indentation among all of these lines is calculated and then the lines are dedented"
    least = min((_indent_len(ln, blanks) for ln in others), default=0)
    out = [ln[least:] for ln in others]
    # "If the first or last line would be empty after applying the rules above, they are removed from the resulting string."
    # A blank last line has had its indentation "fully removed", i.e. it is empty -> it is not part of the result; a
    # non-blank last line is in `others` already and cannot become empty.
    if first != "":
        out.insert(0, first)
    return "\n".join(out)


def multi_line_values(literal: str) -> set[str]:
    """Admissible values of a MULTILINE_STRING_LITERAL token (including its triple quotes).

    Lines are separated by '\\n'.  No escape processing ("\\n in multiline strings are kept as is").
    Admissible variation (spec silent), each adds alternatives to the returned set:
      * a body that consists of one line of blanks only (first line = last line: preserved or removed);
      * '\\r\\n', '\\r', '\\f' may or may not count as line ends (universal newlines, converted to '\\n');
      * "whitespace characters" of an indentation: blanks only, or blanks and tabs.
    The characters in NOT_NEWLINES never end a line.
    """
    assert len(literal) >= 6 and literal[:3] == literal[-3:] and literal[:3] in ("'''", '"""'), literal
    body = literal[3:-3]
    results: set[str] = set()
    splits = [body.split("\n")]
    if any(c in body for c in MAYBE_NEWLINES):
        splits.append(re.split(r"\r\n|\r|\n|\x0c", body))
        splits.append(re.split(r"\r\n|\r|\n", body))
    for lines in splits:
        for blanks in (" ", " \t"):
            results.add(_dedent(lines, blanks))
            if len(lines) == 1 and _indent_len(lines[0], blanks) == len(lines[0]):
                results.add("")
    return results


def multi_line_value_strict(literal: str) -> str:
    """The single most literal reading: lines split on '\\n', indentation = blanks (U+0020)."""
    return _dedent(literal[3:-3].split("\n"), " ")
