"""Independent front end for ExplorerScript: text -> parse tree (the repository's ANTLR grammar) -> own AST.

The grammar *is* the definition of the syntax, so the repository's generated parser is used to obtain the parse tree.
Everything after that is done here: this module walks `ExplorerScriptParser.*Context` objects directly and never
imports or calls anything under `explorerscript.ssb_converting.compiler.compile_handlers` or `...compiler_visitor`
(the oracle must be independent of the code under test).  Only the repository's *leaf value parsers* are used
(integers, fixed point values, string literals, position mark arguments); those are the business of property C04.

Every statement and every header (if/elseif condition, switch header, case header, routine, macro) records the
zero-based line and the column of its first token in the field `pos` (not part of equality / hashing).
"""
from __future__ import annotations

from dataclasses import dataclass, field, fields, is_dataclass
from typing import Any, Optional, Union

from explorerscript.common_syntax import parse_position_marker_arg
from explorerscript.explorerscript_reader import ExplorerScriptReader
from explorerscript.ssb_converting.compiler.utils import multiline_string_literal, singleline_string_literal
from explorerscript.ssb_converting.ssb_data_types import (
    SsbOpParamConstant,
    SsbOpParamConstString,
    SsbOpParamFixedPoint,
    SsbOpParamLanguageString,
    SsbOpParamPositionMarker,
)
from explorerscript.util import exps_int

Pos = Optional[tuple]  # (line0, column)


def _pos() -> Any:
    return field(default=None, compare=False, hash=False, repr=False)


# ------------------------------------------------------------------------------------------------ values
@dataclass(frozen=True)
class Int:
    value: int


@dataclass(frozen=True)
class Dec:
    """Fixed point value; `value` is the normalised text of SsbOpParamFixedPoint.from_str (C04 owns its parsing)."""

    value: str


@dataclass(frozen=True)
class Const:
    """IDENTIFIER or VARIABLE token (the latter including its `$`)."""

    name: str


@dataclass(frozen=True)
class Str:
    value: str


@dataclass(frozen=True)
class LangStr:
    items: tuple  # ((language, text), ...) in source order


@dataclass(frozen=True)
class PosMark:
    name: str
    x_offset: int
    y_offset: int
    x_relative: int
    y_relative: int


Value = Union[Int, Dec, Const, Str, LangStr, PosMark]


def to_param(v: Value) -> Any:
    """AST value -> the SsbOpParam object the data model uses for it."""
    if isinstance(v, Int):
        return v.value
    if isinstance(v, Dec):
        p = SsbOpParamFixedPoint(0, "0")
        p.value = v.value
        return p
    if isinstance(v, Const):
        return SsbOpParamConstant(v.name)
    if isinstance(v, Str):
        return SsbOpParamConstString(v.value)
    if isinstance(v, LangStr):
        return SsbOpParamLanguageString(dict(v.items))
    if isinstance(v, PosMark):
        return SsbOpParamPositionMarker(v.name, v.x_offset, v.y_offset, v.x_relative, v.y_relative)
    raise TypeError(f"not an AST value: {v!r}")


# ------------------------------------------------------------------------------------------------ statements
@dataclass(frozen=True)
class CtxHeader:
    kind: str  # the IDENTIFIER as written: actor | object | performer (anything else is a static error)
    target: Value
    pos: Pos = _pos()


@dataclass(frozen=True)
class Op:
    name: str
    args: tuple = ()
    ctx: Optional[CtxHeader] = None  # inline context  name<actor X>(...)
    pos: Pos = _pos()


@dataclass(frozen=True)
class AssignRegular:
    var: Value
    index: Optional[int]  # $V[index] = ...
    operator: str  # = -= += *= /=
    value: Value
    value_is_var: bool  # value(X)
    pos: Pos = _pos()


@dataclass(frozen=True)
class AssignClear:
    var: Value
    pos: Pos = _pos()


@dataclass(frozen=True)
class AssignInit:
    var: Value
    pos: Pos = _pos()


@dataclass(frozen=True)
class AssignReset:
    scn_var: Optional[Value]  # None: reset dungeon_result
    pos: Pos = _pos()


@dataclass(frozen=True)
class AssignAdvLog:
    value: Value
    pos: Pos = _pos()


@dataclass(frozen=True)
class AssignDungeonMode:
    dungeon: Value
    value: Value
    pos: Pos = _pos()


@dataclass(frozen=True)
class AssignScn:
    var: Value
    scenario: int
    level: int
    pos: Pos = _pos()


ASSIGNMENTS = (AssignRegular, AssignClear, AssignInit, AssignReset, AssignAdvLog, AssignDungeonMode, AssignScn)


@dataclass(frozen=True)
class Label:
    name: str
    paragraph: bool = False  # written with the legacy § instead of @
    pos: Pos = _pos()


@dataclass(frozen=True)
class Jump:
    name: str
    pos: Pos = _pos()


@dataclass(frozen=True)
class Call:
    name: str
    pos: Pos = _pos()


@dataclass(frozen=True)
class Ctrl:
    kind: str  # return end hold continue break break_loop
    pos: Pos = _pos()


@dataclass(frozen=True)
class With:
    ctx: CtxHeader
    stmt: Any  # one simple statement
    pos: Pos = _pos()


# conditions (if headers)
@dataclass(frozen=True)
class CondOp:
    var: Value
    operator: str  # FALSE TRUE == >= <= < > != & ^ &<<
    value: Value
    value_is_var: bool
    pos: Pos = _pos()


@dataclass(frozen=True)
class CondBit:
    negated: bool
    var: Value
    index: int
    pos: Pos = _pos()


@dataclass(frozen=True)
class CondSpecial:
    negated: bool
    kind: str  # debug edit variation
    pos: Pos = _pos()


@dataclass(frozen=True)
class CondScn:
    var: Value
    operator: str
    scenario: int
    level: int
    pos: Pos = _pos()


@dataclass(frozen=True)
class CondOperation:
    op: Op
    pos: Pos = _pos()


@dataclass(frozen=True)
class IfBranch:
    negated: bool
    conds: tuple
    body: tuple
    pos: Pos = _pos()  # of `if` / `elseif`


@dataclass(frozen=True)
class If:
    branches: tuple  # IfBranch, first is the `if`, rest `elseif`
    else_body: Optional[tuple]
    pos: Pos = _pos()
    else_pos: Pos = _pos()


# switch headers
@dataclass(frozen=True)
class SwVar:
    value: Value
    pos: Pos = _pos()


@dataclass(frozen=True)
class SwOperation:
    op: Op
    pos: Pos = _pos()


@dataclass(frozen=True)
class SwScn:
    var: Value
    index: int
    pos: Pos = _pos()


@dataclass(frozen=True)
class SwRandom:
    value: Value
    pos: Pos = _pos()


@dataclass(frozen=True)
class SwDungeonMode:
    value: Value
    pos: Pos = _pos()


@dataclass(frozen=True)
class SwSector:
    pos: Pos = _pos()


# case headers
@dataclass(frozen=True)
class CaseVal:
    value: Value
    pos: Pos = _pos()


@dataclass(frozen=True)
class CaseMenu:
    text: Value  # Str | LangStr
    pos: Pos = _pos()


@dataclass(frozen=True)
class CaseMenu2:
    value: Value
    pos: Pos = _pos()


@dataclass(frozen=True)
class CaseOp:
    operator: str
    value: Value
    value_is_var: bool
    pos: Pos = _pos()


@dataclass(frozen=True)
class Case:
    header: Any  # None for `default:`
    body: tuple  # statements (empty if `text` is given)
    text: Optional[Value] = None  # Str | LangStr: the string form `case 1: "text"` (message switches)
    pos: Pos = _pos()  # of `case` / `default`


@dataclass(frozen=True)
class Switch:
    header: Any
    cases: tuple
    pos: Pos = _pos()


@dataclass(frozen=True)
class MessageSwitch:
    kind: str  # message_SwitchTalk | message_SwitchMonologue
    value: Value
    cases: tuple
    pos: Pos = _pos()


@dataclass(frozen=True)
class Forever:
    body: tuple
    pos: Pos = _pos()


@dataclass(frozen=True)
class While:
    negated: bool
    cond: Any
    body: tuple
    pos: Pos = _pos()


@dataclass(frozen=True)
class For:
    init: Any
    cond: Any
    incr: Any
    body: tuple
    pos: Pos = _pos()


@dataclass(frozen=True)
class MacroCall:
    name: str
    args: tuple = ()
    pos: Pos = _pos()


# ------------------------------------------------------------------------------------------------ top level
@dataclass(frozen=True)
class Routine:
    kind: str  # def | coro
    id: Optional[int] = None  # def N
    name: Optional[str] = None  # coro NAME
    target_kind: Optional[str] = None  # actor | object | performer (as written; for_actor -> actor)
    target: Optional[Value] = None
    legacy_target: bool = False  # for_actor(X) spelling
    body: Optional[tuple] = None  # None: alias previous
    pos: Pos = _pos()


@dataclass(frozen=True)
class Macro:
    name: str
    params: tuple  # VARIABLE tokens incl. `$`
    body: Optional[tuple]  # None: alias previous (grammar allows, meaningless)
    pos: Pos = _pos()


@dataclass(frozen=True)
class Program:
    imports: tuple  # raw import strings
    items: tuple  # Routine | Macro in source order

    @property
    def routines(self) -> list:
        return [i for i in self.items if isinstance(i, Routine)]

    @property
    def macros(self) -> list:
        return [i for i in self.items if isinstance(i, Macro)]


# ------------------------------------------------------------------------------------------------ walker
class UnsupportedSyntax(Exception):
    """The parse tree has a shape this walker does not know (grammar changed?)."""


def _p(ctx: Any) -> tuple:
    return (ctx.start.line - 1, ctx.start.column)


def _integer_like(ctx: Any) -> Value:
    if ctx.INTEGER():
        return Int(exps_int(str(ctx.INTEGER())))
    if ctx.DECIMAL():
        return Dec(SsbOpParamFixedPoint.from_str(str(ctx.DECIMAL())).value)
    if ctx.IDENTIFIER():
        return Const(str(ctx.IDENTIFIER()))
    if ctx.VARIABLE():
        return Const(str(ctx.VARIABLE()))
    raise UnsupportedSyntax("integer_like")


def _string_value(ctx: Any) -> str:
    if ctx.STRING_LITERAL():
        return singleline_string_literal(str(ctx.STRING_LITERAL()))
    return multiline_string_literal(str(ctx.MULTILINE_STRING_LITERAL()))


def _string(ctx: Any) -> Value:
    if ctx.string_value():
        return Str(_string_value(ctx.string_value()))
    ls = ctx.lang_string()
    return LangStr(tuple((str(a.IDENTIFIER()), _string_value(a.string_value())) for a in ls.lang_string_argument()))


def _position_marker(ctx: Any) -> PosMark:
    name = singleline_string_literal(str(ctx.STRING_LITERAL()))
    x, xo = parse_position_marker_arg(ctx.position_marker_arg(0))
    y, yo = parse_position_marker_arg(ctx.position_marker_arg(1))
    return PosMark(name, xo, yo, x, y)


def _arglist(ctx: Any) -> tuple:
    if ctx is None:
        return ()
    out = []
    for a in ctx.pos_argument():
        if a.integer_like():
            out.append(_integer_like(a.integer_like()))
        elif a.string():
            out.append(_string(a.string()))
        elif a.position_marker():
            out.append(_position_marker(a.position_marker()))
        else:
            raise UnsupportedSyntax("pos_argument")
    return tuple(out)


def _ctx_header(ctx: Any) -> CtxHeader:
    return CtxHeader(str(ctx.IDENTIFIER()), _integer_like(ctx.integer_like()), pos=_p(ctx))


def _operation(ctx: Any) -> Op:
    ic = ctx.inline_ctx()
    return Op(
        str(ctx.IDENTIFIER()),
        _arglist(ctx.arglist()),
        _ctx_header(ic.ctx_header()) if ic is not None else None,
        pos=_p(ctx),
    )


_COND_OPS = (
    ("OP_FALSE", "FALSE"),
    ("OP_TRUE", "TRUE"),
    ("OP_EQ", "=="),
    ("OP_GE", ">="),
    ("OP_LE", "<="),
    ("OPEN_SHARP", "<"),
    ("CLOSE_SHARP", ">"),
    ("OP_NEQ", "!="),
    ("OP_AND", "&"),
    ("OP_XOR", "^"),
    ("OP_BICH", "&<<"),
)
_ASSIGN_OPS = (("OP_MINUS", "-="), ("OP_PLUS", "+="), ("OP_MULTIPLY", "*="), ("OP_DIVIDE", "/="), ("ASSIGN", "="))


def _token_of(ctx: Any, table: tuple) -> str:
    for meth, text in table:
        if getattr(ctx, meth)():
            return text
    raise UnsupportedSyntax(type(ctx).__name__)


def _value_or_var(ctx: Any, first_integer_like: int) -> tuple:
    """(value, value_is_var) for the `( value_of | integer_like )` tail of a rule."""
    if ctx.value_of():
        return _integer_like(ctx.value_of().integer_like()), True
    il = ctx.integer_like(first_integer_like) if first_integer_like is not None else ctx.integer_like()
    return _integer_like(il), False


def _assignment(ctx: Any) -> Any:
    pos = _p(ctx)
    if ctx.assignment_regular():
        c = ctx.assignment_regular()
        value, is_var = _value_or_var(c, 1)
        index = exps_int(str(c.INTEGER())) if c.INTEGER() else None
        return AssignRegular(
            _integer_like(c.integer_like(0)), index, _token_of(c.assign_operator(), _ASSIGN_OPS), value, is_var, pos=pos
        )
    if ctx.assignment_clear():
        return AssignClear(_integer_like(ctx.assignment_clear().integer_like()), pos=pos)
    if ctx.assignment_initial():
        return AssignInit(_integer_like(ctx.assignment_initial().integer_like()), pos=pos)
    if ctx.assignment_reset():
        c = ctx.assignment_reset()
        if c.DUNGEON_RESULT():
            return AssignReset(None, pos=pos)
        return AssignReset(_integer_like(c.scn_var().integer_like()), pos=pos)
    if ctx.assignment_adv_log():
        return AssignAdvLog(_integer_like(ctx.assignment_adv_log().integer_like()), pos=pos)
    if ctx.assignment_dungeon_mode():
        c = ctx.assignment_dungeon_mode()
        return AssignDungeonMode(_integer_like(c.integer_like(0)), _integer_like(c.integer_like(1)), pos=pos)
    if ctx.assignment_scn():
        c = ctx.assignment_scn()
        return AssignScn(
            _integer_like(c.integer_like()), exps_int(str(c.INTEGER(0))), exps_int(str(c.INTEGER(1))), pos=pos
        )
    raise UnsupportedSyntax("assignment")


def _simple_stmt(ctx: Any) -> Any:
    pos = _p(ctx)
    if ctx.operation():
        return _operation(ctx.operation())
    if ctx.label():
        lc = ctx.label()
        return Label(str(lc.IDENTIFIER()), lc.PARAGRAPH() is not None, pos=pos)
    if ctx.cntrl_stmt():
        c = ctx.cntrl_stmt()
        for meth, kind in (
            ("RETURN", "return"),
            ("END", "end"),
            ("HOLD", "hold"),
            ("CONTINUE", "continue"),
            ("BREAK_LOOP", "break_loop"),
            ("BREAK", "break"),
        ):
            if getattr(c, meth)():
                return Ctrl(kind, pos=pos)
        raise UnsupportedSyntax("cntrl_stmt")
    if ctx.jump():
        return Jump(str(ctx.jump().IDENTIFIER()), pos=pos)
    if ctx.call():
        return Call(str(ctx.call().IDENTIFIER()), pos=pos)
    if ctx.assignment():
        return _assignment(ctx.assignment())
    raise UnsupportedSyntax("simple_stmt")


def _if_header(ctx: Any) -> Any:
    pos = _p(ctx)
    if ctx.if_h_op():
        c = ctx.if_h_op()
        value, is_var = _value_or_var(c, 1)
        return CondOp(_integer_like(c.integer_like(0)), _token_of(c.conditional_operator(), _COND_OPS), value, is_var, pos=pos)
    if ctx.if_h_bit():
        c = ctx.if_h_bit()
        return CondBit(c.NOT() is not None, _integer_like(c.integer_like()), exps_int(str(c.INTEGER())), pos=pos)
    if ctx.if_h_negatable():
        c = ctx.if_h_negatable()
        kind = "debug" if c.DEBUG() else "edit" if c.EDIT() else "variation" if c.VARIATION() else None
        if kind is None:
            raise UnsupportedSyntax("if_h_negatable")
        return CondSpecial(c.NOT() is not None, kind, pos=pos)
    if ctx.if_h_scn():
        c = ctx.if_h_scn()
        return CondScn(
            _integer_like(c.scn_var().integer_like()),
            _token_of(c.conditional_operator(), _COND_OPS),
            exps_int(str(c.INTEGER(0))),
            exps_int(str(c.INTEGER(1))),
            pos=pos,
        )
    if ctx.operation():
        return CondOperation(_operation(ctx.operation()), pos=pos)
    raise UnsupportedSyntax("if_header")


def _switch_header(ctx: Any) -> Any:
    pos = _p(ctx)
    if ctx.integer_like():
        return SwVar(_integer_like(ctx.integer_like()), pos=pos)
    if ctx.operation():
        return SwOperation(_operation(ctx.operation()), pos=pos)
    if ctx.switch_h_scn():
        c = ctx.switch_h_scn()
        return SwScn(_integer_like(c.scn_var().integer_like()), exps_int(str(c.INTEGER())), pos=pos)
    if ctx.switch_h_random():
        return SwRandom(_integer_like(ctx.switch_h_random().integer_like()), pos=pos)
    if ctx.switch_h_dungeon_mode():
        return SwDungeonMode(_integer_like(ctx.switch_h_dungeon_mode().integer_like()), pos=pos)
    if ctx.switch_h_sector():
        return SwSector(pos=pos)
    raise UnsupportedSyntax("switch_header")


def _case_header(ctx: Any) -> Any:
    pos = _p(ctx)
    if ctx.integer_like():
        return CaseVal(_integer_like(ctx.integer_like()), pos=pos)
    if ctx.case_h_menu():
        return CaseMenu(_string(ctx.case_h_menu().string()), pos=pos)
    if ctx.case_h_menu2():
        return CaseMenu2(_integer_like(ctx.case_h_menu2().integer_like()), pos=pos)
    if ctx.case_h_op():
        c = ctx.case_h_op()
        value, is_var = _value_or_var(c, None)
        return CaseOp(_token_of(c.conditional_operator(), _COND_OPS), value, is_var, pos=pos)
    raise UnsupportedSyntax("case_header")


def _cases(ctx: Any) -> tuple:
    """`(default | single_case_block)*` children in source order."""
    out = []
    for ch in ctx.getChildren():
        name = type(ch).__name__
        if name == "Single_case_blockContext":
            text = _string(ch.string()) if ch.string() else None
            out.append(Case(_case_header(ch.case_header()), _stmts(ch.stmt()), text, pos=_p(ch)))
        elif name == "DefaultContext":
            text = _string(ch.string()) if ch.string() else None
            out.append(Case(None, _stmts(ch.stmt()), text, pos=_p(ch)))
    return tuple(out)


def _stmts(ctxs: Any) -> tuple:
    return tuple(_stmt(c) for c in ctxs)


def _if_branch(ctx: Any) -> IfBranch:
    return IfBranch(
        ctx.NOT() is not None, tuple(_if_header(h) for h in ctx.if_header()), _stmts(ctx.stmt()), pos=_p(ctx)
    )


def _stmt(ctx: Any) -> Any:
    pos = _p(ctx)
    if ctx.simple_stmt():
        return _simple_stmt(ctx.simple_stmt())
    if ctx.ctx_block():
        c = ctx.ctx_block()
        return With(_ctx_header(c.ctx_header()), _simple_stmt(c.simple_stmt()), pos=pos)
    if ctx.if_block():
        c = ctx.if_block()
        branches = [_if_branch(c)] + [_if_branch(e) for e in c.elseif_block()]
        eb = c.else_block()
        return If(
            tuple(branches),
            _stmts(eb.stmt()) if eb is not None else None,
            pos=pos,
            else_pos=_p(eb) if eb is not None else None,
        )
    if ctx.switch_block():
        c = ctx.switch_block()
        return Switch(_switch_header(c.switch_header()), _cases(c), pos=pos)
    if ctx.message_switch_block():
        c = ctx.message_switch_block()
        kind = "message_SwitchTalk" if c.MESSAGE_SWITCH_TALK() else "message_SwitchMonologue"
        return MessageSwitch(kind, _integer_like(c.integer_like()), _cases(c), pos=pos)
    if ctx.forever_block():
        return Forever(_stmts(ctx.forever_block().stmt()), pos=pos)
    if ctx.for_block():
        c = ctx.for_block()
        return For(
            _simple_stmt(c.simple_stmt(0)), _if_header(c.if_header()), _simple_stmt(c.simple_stmt(1)), _stmts(c.stmt()), pos=pos
        )
    if ctx.while_block():
        c = ctx.while_block()
        return While(c.NOT() is not None, _if_header(c.if_header()), _stmts(c.stmt()), pos=pos)
    if ctx.macro_call():
        c = ctx.macro_call()
        return MacroCall(str(c.MACRO_CALL())[1:], _arglist(c.arglist()), pos=pos)
    raise UnsupportedSyntax("stmt")


def _func_suite(ctx: Any) -> Optional[tuple]:
    if ctx.func_alias():
        return None
    return _stmts(ctx.stmt())


def _funcdef(ctx: Any) -> Routine:
    pos = _p(ctx)
    if ctx.simple_def():
        c = ctx.simple_def()
        return Routine("def", id=exps_int(str(c.INTEGER())), body=_func_suite(c.func_suite()), pos=pos)
    if ctx.coro_def():
        c = ctx.coro_def()
        return Routine("coro", name=str(c.IDENTIFIER()), body=_func_suite(c.func_suite()), pos=pos)
    if ctx.for_target_def():
        c = ctx.for_target_def()
        t = c.for_target_def_target()
        if t.FOR_TARGET():
            word = str(t.FOR_TARGET())
            kind = word[len("for_"):]
            legacy = True
        else:
            kind = str(t.IDENTIFIER())
            legacy = False
        return Routine(
            "def",
            id=exps_int(str(c.INTEGER())),
            target_kind=kind,
            target=_integer_like(c.integer_like()),
            legacy_target=legacy,
            body=_func_suite(c.func_suite()),
            pos=pos,
        )
    raise UnsupportedSyntax("funcdef")


def from_tree(tree: Any) -> Program:
    imports = tuple(singleline_string_literal(str(i.STRING_LITERAL())) for i in tree.import_stmt())
    items = []
    for ch in tree.getChildren():
        name = type(ch).__name__
        if name == "MacrodefContext":
            items.append(
                Macro(str(ch.IDENTIFIER()), tuple(str(v) for v in ch.VARIABLE()), _func_suite(ch.func_suite()), pos=_p(ch))
            )
        elif name == "FuncdefContext":
            items.append(_funcdef(ch))
    return Program(imports, tuple(items))


def parse(text: str) -> Program:
    """ExplorerScript text -> Program.  Raises explorerscript.error.ParseError on syntax errors."""
    return from_tree(ExplorerScriptReader(text).read())


# ------------------------------------------------------------------------------------------------ utilities
def walk(node: Any):
    """Yield every dataclass node of an AST (pre-order)."""
    if is_dataclass(node) and not isinstance(node, type):
        yield node
        for f in fields(node):
            if f.name in ("pos", "else_pos"):
                continue
            yield from walk(getattr(node, f.name))
    elif isinstance(node, tuple):
        for x in node:
            yield from walk(x)


def to_json(node: Any) -> Any:
    """JSON-able dump (without positions) - used for hashing and for violation records."""
    if is_dataclass(node) and not isinstance(node, type):
        d = {"_": type(node).__name__}
        for f in fields(node):
            if f.name in ("pos", "else_pos"):
                continue
            d[f.name] = to_json(getattr(node, f.name))
        return d
    if isinstance(node, tuple):
        return [to_json(x) for x in node]
    return node
