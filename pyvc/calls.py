"""Calls: builtins, container methods, constructors, inlined helpers, and modular calls against sidecar contracts."""
from __future__ import annotations

import ast

import z3

from pyvc import types as T
from pyvc.engine import (
    SpecEval, St, SV, Out, Unsupported, V, IntS, StrS, ArrIV, NONE_SV,
    mk_int, mk_bool, mk_str, as_i, as_s, as_r, fresh, cls_of, int_str, parse_int, str_count_nl, _fresh, heap_sort,
)
from pyvc.source import ClassInfo
from pyvc.spec import Contract
from pyvc.types import Ty

MAX_INLINE_DEPTH = 6


_type_tag = z3.Function("type_tag", V, z3.IntSort())


class Calls:
    # ------------------------------------------------------------------ argument evaluation
    def ev_args(self, args: list[ast.expr], st: St):
        outs = [(st, [])]
        for a in args:
            if isinstance(a, ast.Starred):
                # *t[k:] for a tuple of statically known length: expanded element by element
                v = a.value
                if isinstance(v, ast.Subscript) and isinstance(v.slice, ast.Slice) and v.slice.upper is None and v.slice.step is None and isinstance(v.slice.lower, ast.Constant) and isinstance(v.slice.lower.value, int):
                    nxt = []
                    for s1, acc in outs:
                        for s2, tup in self.ev(v.value, s1):
                            tt = T.strip_opt(tup.ty)
                            if tt.k != "tuple":
                                raise Unsupported("*args of a value without static tuple type")
                            s2 = s2.copy()
                            if tup.ty.k == "opt":
                                s2 = self.implicit_raise(s2, z3.Not(V.is_none(tup.term)), "TypeError", f"L{a.lineno}.star-none", "starred value is not None", a.lineno)
                            vals = [self.list_read(s2, SV(tup.term, tt), z3.IntVal(i), tt.a[i]) for i in range(v.slice.lower.value, len(tt.a))]
                            nxt.append((s2, acc + vals))
                    outs = nxt
                    continue
                nxt = []
                for s1, acc in outs:
                    for s2, tup in self.ev(v, s1):
                        tt = T.strip_opt(tup.ty)
                        if tt.k != "tuple" or tup.ty.k == "opt":
                            raise Unsupported("*args of a value without static tuple type")
                        s2 = s2.copy()
                        nxt.append((s2, acc + [self.list_read(s2, SV(tup.term, tt), z3.IntVal(i), tt.a[i]) for i in range(len(tt.a))]))
                outs = nxt
                continue
            outs = [(s2, acc + [v]) for s1, acc in outs for s2, v in self.ev(a, s1)]
        return outs

    def ev_call(self, n: ast.Call, st: St):
        src = ast.unparse(n.func)
        line = n.lineno
        if any(src.startswith(p) for p in ("logger.", "logging.", "warnings.warn")):
            return [(st, NONE_SV)]
        if n.keywords and any(k.arg is None for k in n.keywords):
            raise Unsupported("**kwargs at call site")
        # ---- builtins by name
        if isinstance(n.func, ast.Name):
            f = n.func.id
            if f in ("f", "_") and f not in st.loc:
                return [(st.copy(), SV(mk_str(fresh("msg", StrS)), T.STR))]
            if f == "len" and len(n.args) == 1 and isinstance(n.args[0], ast.ListComp):
                cnt = self.len_of_filtered(n.args[0], st)
                if cnt is not None:
                    return cnt
            if f == "len":
                out = []
                for s1, (c,) in self.ev_args(n.args, st):
                    ct = T.strip_opt(c.ty)
                    if ct.k == "dict":
                        out.append((s1, SV(mk_int(self.dict_size(s1, c)), T.INT)))
                    elif ct.k == "str":
                        out.append((s1, SV(mk_int(z3.Length(as_s(c.term))), T.INT)))
                    elif ct.k in ("list", "tuple", "vtuple"):
                        out.append((s1, SV(mk_int(self.list_len(s1, c)), T.INT)))
                    else:
                        raise Unsupported(f"len of {c.ty}")
                return out
            if f == "type" and len(n.args) == 1 and not n.keywords and "type" not in st.loc:
                # type(x), usable only in identity comparisons: the class id for an object of a repository class; for any other
                # value an unconstrained (but functional: same value, same tag) negative number, so nothing is concluded
                # about the types of two non-objects and an object's type never equals a non-object's
                out = []
                for s1, (x,) in self.ev_args(n.args, st):
                    tg = _type_tag(x.term)
                    out.append((s1, SV(mk_int(z3.If(V.is_ref(x.term), cls_of(as_r(x.term)), z3.If(tg >= 0, -1 - tg, tg - 1))), T.INT)))
                return out
            if f == "isinstance":
                out = []
                for s1, (x,) in self.ev_args(n.args[:1], st):
                    cn = n.args[1]
                    names = cn.elts if isinstance(cn, ast.Tuple) else [cn]
                    parts = []
                    for c in names:
                        if isinstance(c, ast.Name) and c.id in ("list", "dict", "tuple") and T.strip_opt(x.ty).k in ("list", "dict", "tuple", "vtuple"):
                            k_ = T.strip_opt(x.ty).k
                            parts.append(z3.BoolVal((c.id == "list" and k_ == "list") or (c.id == "dict" and k_ == "dict") or (c.id == "tuple" and k_ in ("tuple", "vtuple"))))
                            continue
                        if ast.unparse(c) == "self.__class__":
                            # isinstance(other, self.__class__): exact class of self or subclass of it
                            selfv = s1.loc["self"]
                            subs = self.repo.subclasses(T.class_of(selfv.ty) or "")
                            # other's class must be a subclass of self's dynamic class
                            alts = []
                            for sc in subs:
                                alts.append(z3.And(cls_of(as_r(selfv.term)) == self.cid(sc), self.is_instance(x.term, sc)))
                            parts.append(z3.Or(alts))
                        else:
                            parts.append(self.is_instance(x.term, SpecEval(self, s1, {}, None)._cname(c)))
                    out.append((s1, SV(mk_bool(z3.Or(parts)), T.BOOL)))
                return out
            if f == "int":
                out = []
                for s1, vals in self.ev_args(n.args, st):
                    a = vals[0]
                    at = T.strip_opt(a.ty)
                    if at.k == "int":
                        out.append((s1, a))
                    elif at.k == "str":
                        # int(str[, 0]) : ValueError unless canonical; modelled through parse_int with an explicit raise path
                        okc = fresh("int_ok", z3.BoolSort())
                        s1 = self.implicit_raise(s1, okc, "ValueError", f"L{line}.int-parse", "string passed to int() is a valid integer literal", line)
                        out.append((s1, SV(mk_int(parse_int(as_s(a.term))), T.INT)))
                    elif at.k == "any":
                        self.assumptions_used.add("int(x) on an untyped x that is not a str is the identity on ints")
                        s1 = s1.copy()
                        # only sound when x is an int or a str key produced by json: treat by cases
                        res = z3.If(V.is_intv(a.term), V.i(a.term), parse_int(V.s(a.term)))
                        s1 = self.implicit_raise(s1, z3.Or(V.is_intv(a.term), V.is_strv(a.term)), "TypeError", f"L{line}.int-arg", "argument of int() is an int or a str", line)
                        out.append((s1, SV(mk_int(res), T.INT)))
                    else:
                        raise Unsupported(f"int() of {a.ty}")
                return out
            if f == "str":
                out = []
                for s1, (a,) in self.ev_args(n.args, st):
                    if a.ty.k == "int":
                        out.append((s1, SV(mk_str(int_str(as_i(a.term))), T.STR)))
                    elif a.ty.k == "str":
                        out.append((s1, a))
                    else:
                        cname = T.class_of(a.ty)
                        m = self.repo.find_method(cname, "__str__") if cname else None
                        if m is None:
                            s1 = s1.copy()
                            out.append((s1, SV(mk_str(fresh("str", StrS)), T.STR)))
                            self.assumptions_used.add("str(x) of an object without modelled __str__ is an opaque string")
                        else:
                            out += self.call_function(m[0], m[1], [a], {}, s1, line, f"{m[0].name}.__str__")
                return out
            if f in ("any", "all") and len(n.args) == 1 and isinstance(n.args[0], (ast.GeneratorExp, ast.ListComp)):
                return self.ev_anyall(n, st, f)
            if f in ("max", "min") and len(n.args) == 1 and not n.keywords:
                return self.ev_minmax(n, st, f)
            if f in ("list", "dict", "set") and not n.args and not n.keywords:
                s1 = st.copy()
                if f == "dict":
                    return [(s1, self.new_dict(s1, T.dct(T.ANY, T.ANY)))]
                if f == "set":
                    return [(s1, self.new_dict(s1, Ty("set", (T.ANY,))))]
                return [(s1, self.new_list(s1, [], T.lst(T.ANY)))]
            if f == "list" and len(n.args) == 1:
                out = []
                for s1, (a,) in self.ev_args(n.args, st):
                    s1 = s1.copy()
                    out.append((s1, self.list_copy(s1, a)))
                return out
            if f == "super":
                raise Unsupported("bare super()")
            # class constructor?
            target = self.resolve_name(f)
            if target is not None and target[0] == "class":
                return self.construct(target[1], n, st)
            if target is not None and target[0] == "func":
                mod, fn = target[1], target[2]
                out = []
                for s1, vals in self.ev_args(n.args, st):
                    kw = self.ev_kwargs(n, s1)
                    for s2, kwv in kw:
                        out += self.call_function(None, fn, vals, kwv, s2, line, f"{mod}:{fn.name}", module=mod)
                return out
            if f in st.loc:
                cname = T.class_of(st.loc[f].ty)
                found = self.repo.find_method(cname, "__call__") if cname else None
                if found is None:
                    raise Unsupported("call of a local callable " + f)
                out = []
                for s1, vals in self.ev_args(n.args, st):
                    for s2, kwv in self.ev_kwargs(n, s1):
                        out += self.call_function(found[0], found[1], [s2.loc[f]] + vals, kwv, s2, line, f"{found[0].name}.__call__")
                return out
            raise Unsupported("call of " + f)
        # ---- opaque library calls (assumed total, result unconstrained)
        if src == "re.compile":
            self.assumptions_used.add("re.compile/search/group are total and their results unconstrained (opaque)")
            s1 = st.copy()
            return [(s1, SV(fresh("pattern", V), Ty("opaque", ("Pattern",))))]
        # ---- method calls
        if isinstance(n.func, ast.Attribute):
            return self.ev_method_call(n, st)
        raise Unsupported("call " + src)

    def ev_kwargs(self, n: ast.Call, st: St):
        outs = [(st, {})]
        for k in n.keywords:
            outs = [(s2, {**acc, k.arg: v}) for s1, acc in outs for s2, v in self.ev(k.value, s1)]
        return outs

    def resolve_name(self, name: str):
        """-> ('class', cname) | ('func', module, FunctionDef) | None; follows `from x import y` of the current module."""
        mod = self.cur_module
        for _ in range(5):
            tree = self.repo.load(mod)
            for node in tree.body:
                if isinstance(node, ast.FunctionDef) and node.name == name:
                    return ("func", mod, node)
                if isinstance(node, ast.ClassDef) and node.name == name:
                    return ("class", name)
            imp = self.module_imports(mod)
            if name in imp:
                mod, name = imp[name]
                try:
                    self.repo.load(mod)
                except OSError:
                    return None
                continue
            return None
        return None

    def ev_minmax(self, n: ast.Call, st: St, f: str):
        arg = n.args[0]
        out = []
        if isinstance(arg, ast.GeneratorExp):
            return self.ev_minmax_gen(n, arg, st, f)
        keys_of = None
        if isinstance(arg, ast.Call) and isinstance(arg.func, ast.Attribute) and arg.func.attr == "keys":
            keys_of = arg.func.value
        for s1, c in self.ev(keys_of if keys_of is not None else arg, st):
            s1 = s1.copy()
            ct = T.strip_opt(c.ty)
            m = fresh(f, IntS)
            if ct.k == "dict":
                s1 = self.implicit_raise(s1, self.dict_size(s1, c) >= 1, "ValueError", f"L{n.lineno}.{f}-empty", f"argument of {f}() is not empty (else ValueError)", n.lineno)
                k = z3.Const(f"k!mm{next(_fresh)}", V)
                has = lambda kk: self.dict_has(s1, c, kk)
                cmp = (lambda a, b: a <= b) if f == "max" else (lambda a, b: a >= b)
                s1.pc = s1.pc + (
                    has(mk_int(m)),
                    z3.ForAll([k], z3.Implies(has(k), z3.And(V.is_intv(k), cmp(V.i(k), m)))) if ct.a[0].k == "int" else z3.BoolVal(True),
                )
                if ct.a[0].k != "int":
                    raise Unsupported(f"{f}() over non-int keys")
            elif ct.k in ("list", "vtuple"):
                ln = self.list_len(s1, c)
                s1 = self.implicit_raise(s1, ln >= 1, "ValueError", f"L{n.lineno}.{f}-empty", f"argument of {f}() is not empty", n.lineno)
                j = z3.Const(f"j!mm{next(_fresh)}", IntS)
                el = lambda jj: V.i(self.list_get(s1, c, jj))
                cmp = (lambda a, b: a <= b) if f == "max" else (lambda a, b: a >= b)
                s1.pc = s1.pc + (
                    z3.Exists([j], z3.And(0 <= j, j < ln, el(j) == m)),
                    z3.ForAll([j], z3.Implies(z3.And(0 <= j, j < ln), cmp(el(j), m))),
                )
            else:
                raise Unsupported(f"{f}() of {c.ty}")
            out.append((s1, SV(mk_int(m), T.INT)))
        return out

    def len_of_filtered(self, lc: ast.ListComp, st: St):
        """len([x for x in xs if [not] isinstance(x, C)]) as the recursive counting function (no list is built)."""
        if len(lc.generators) != 1:
            return None
        g = lc.generators[0]
        if not (isinstance(g.target, ast.Name) and isinstance(lc.elt, ast.Name) and lc.elt.id == g.target.id and len(g.ifs) == 1):
            return None
        t = g.ifs[0]
        neg = False
        if isinstance(t, ast.UnaryOp) and isinstance(t.op, ast.Not):
            neg, t = True, t.operand
        if not (isinstance(t, ast.Call) and isinstance(t.func, ast.Name) and t.func.id == "isinstance" and isinstance(t.args[0], ast.Name) and t.args[0].id == g.target.id and isinstance(t.args[1], ast.Name)):
            return None
        out = []
        for s1, c in self.ev(g.iter, st):
            if T.strip_opt(c.ty).k != "list":
                return None
            fn = self.count_fn(t.args[1].id, neg)
            out.append((s1, SV(mk_int(fn(z3.Select(s1.h("lel"), as_r(c.term)), self.list_len(s1, c))), T.INT)))
        return out

    def ev_anyall(self, n: ast.Call, st: St, f: str):
        """any/all(E(x) for x in <list | dict view> [if C(x)]) with side-effect free E, C (evaluated as pure expressions)."""
        g = n.args[0]
        if len(g.generators) != 1:
            raise Unsupported("any/all over several generators")
        gen = g.generators[0]
        it = gen.iter
        mode, base = "plain", it
        if isinstance(it, ast.Call) and isinstance(it.func, ast.Attribute) and it.func.attr in ("values", "keys", "items") and not it.args:
            mode, base = it.func.attr, it.func.value
        out = []
        for s1, c in self.ev(base, st):
            ct = T.strip_opt(c.ty)
            loc = dict(s1.loc)
            if ct.k == "dict":
                k = z3.Const(f"k!aa{next(_fresh)}", V)
                guard = self.dict_has(s1, c, k)
                key, val = SV(k, ct.a[0]), SV(self.dict_val(s1, c, k), ct.a[1])
                bound = k
                if mode in ("plain", "keys"):
                    binds = {gen.target.id: key} if isinstance(gen.target, ast.Name) else None
                elif mode == "values":
                    binds = {gen.target.id: val} if isinstance(gen.target, ast.Name) else None
                else:
                    binds = {gen.target.elts[0].id: key, gen.target.elts[1].id: val} if isinstance(gen.target, ast.Tuple) and len(gen.target.elts) == 2 else None
            elif ct.k in ("list", "vtuple", "tuple"):
                k = z3.Const(f"j!aa{next(_fresh)}", IntS)
                guard = z3.And(0 <= k, k < self.list_len(s1, c))
                bound = k
                binds = {gen.target.id: SV(self.list_get(s1, c, k), self.elem_type(ct))} if isinstance(gen.target, ast.Name) else None
            else:
                raise Unsupported(f"{f}() over {c.ty}")
            if binds is None:
                raise Unsupported(f"{f}() generator target shape")
            loc.update(binds)
            sp = SpecEval(self, s1, loc, s1.entry, cur_class=self.cur_class)
            cond = z3.And([sp.boolean(t) for t in gen.ifs]) if gen.ifs else z3.BoolVal(True)
            body = sp.boolean(g.elt)
            if f == "any":
                res = z3.Exists([bound], z3.And(guard, cond, body))
            else:
                res = z3.ForAll([bound], z3.Implies(z3.And(guard, cond), body))
            self.assumptions_used.add("any()/all() over a generator: the element expression is evaluated as a pure expression (no exceptions, no effects)")
            out.append((s1, SV(mk_bool(res), T.BOOL)))
        return out

    def ev_minmax_gen(self, n: ast.Call, g: ast.GeneratorExp, st: St, f: str):
        """max/min(E(x) for x in <dict view or list>) with a pure int-valued E."""
        if len(g.generators) != 1 or g.generators[0].ifs or not isinstance(g.generators[0].target, ast.Name):
            raise Unsupported("generator shape in max/min")
        gen = g.generators[0]
        it = gen.iter
        mode, base = "plain", it
        if isinstance(it, ast.Call) and isinstance(it.func, ast.Attribute) and it.func.attr in ("values", "keys") and not it.args:
            mode, base = it.func.attr, it.func.value
        out = []
        for s1, c in self.ev(base, st):
            s1 = s1.copy()
            ct = T.strip_opt(c.ty)
            m = fresh(f, IntS)
            cmp = (lambda a, b: a <= b) if f == "max" else (lambda a, b: a >= b)
            if ct.k == "dict":
                k = z3.Const(f"k!mg{next(_fresh)}", V)
                guard = self.dict_has(s1, c, k)
                x = SV(k, ct.a[0]) if mode in ("keys", "plain") else SV(self.dict_val(s1, c, k), ct.a[1])
                nonempty = self.dict_size(s1, c) >= 1
                bound = k
            elif ct.k in ("list", "vtuple"):
                k = z3.Const(f"j!mg{next(_fresh)}", IntS)
                guard = z3.And(0 <= k, k < self.list_len(s1, c))
                x = SV(self.list_get(s1, c, k), self.elem_type(ct))
                nonempty = self.list_len(s1, c) >= 1
                bound = k
            else:
                raise Unsupported(f"{f}() generator over {c.ty}")
            s1 = self.implicit_raise(s1, nonempty, "ValueError", f"L{n.lineno}.{f}-empty", f"argument of {f}() is not empty (else ValueError)", n.lineno)
            e = SpecEval(self, s1, {**s1.loc, gen.target.id: x}, s1.entry, cur_class=self.cur_class).value(g.elt)
            ev = as_i(e.term)
            s1.pc = s1.pc + (z3.Exists([bound], z3.And(guard, ev == m)), z3.ForAll([bound], z3.Implies(guard, cmp(ev, m))))
            out.append((s1, SV(mk_int(m), T.INT)))
        return out

    def list_copy(self, st: St, a: SV) -> SV:
        r = self.alloc_ref(st, None)
        st.heap["llen"] = z3.Store(st.h("llen"), r, self.list_len(st, a))
        st.heap["lel"] = z3.Store(st.h("lel"), r, z3.Select(st.h("lel"), as_r(a.term)))
        return SV(V.ref(r), T.lst(self.elem_type(a.ty)))

    # ------------------------------------------------------------------ method calls
    def ev_method_call(self, n: ast.Call, st: St):
        func: ast.Attribute = n.func  # type: ignore
        m = func.attr
        line = n.lineno
        base = func.value
        # super().__init__(...)
        if isinstance(base, ast.Call) and isinstance(base.func, ast.Name) and base.func.id == "super":
            assert self.cur_class is not None
            mro = self.repo.mro(self.dyn_class or self.cur_class.name)
            # next class after the class in which the current function is defined
            idx = mro.index(self.cur_class.name)
            for c in mro[idx + 1 :]:
                ci = self.repo.classes[c]
                if m in ci.methods:
                    out = []
                    for s1, vals in self.ev_args(n.args, st):
                        for s2, kwv in self.ev_kwargs(n, s1):
                            out += self.call_function(ci, ci.methods[m], [s2.loc["self"]] + vals, kwv, s2, line, f"{c}.{m}", force_inline=True)
                    return out
            if m == "__init__":
                return [(st, NONE_SV)]
            raise Unsupported("super()." + m)
        # ClassName.method(...)  /  cls.method(...)
        if isinstance(base, ast.Name) and base.id not in st.loc:
            cname = base.id
            if cname == "cls" and self.cur_class is not None:
                cname = self.cur_class.name
            if cname == "json":
                from pyvc.jsonmodel import ev_json

                return ev_json(self, n, st)
            if cname in self.repo.classes or self.resolve_name(cname):
                r = self.resolve_name(cname)
                if r and r[0] == "class":
                    cname = r[1]
                found = self.repo.find_method(cname, m)
                if found is None:
                    raise Unsupported(f"{cname}.{m} not found")
                ci, fn = found
                out = []
                for s1, vals in self.ev_args(n.args, st):
                    for s2, kwv in self.ev_kwargs(n, s1):
                        if m in ci.classmethods:
                            out += self.call_function(ci, fn, [SV(V.none, T.ANY)] + vals, kwv, s2, line, f"{ci.name}.{m}", dyn_class=cname)
                        elif m in ci.staticmethods:
                            out += self.call_function(ci, fn, vals, kwv, s2, line, f"{ci.name}.{m}")
                        else:
                            out += self.call_function(ci, fn, vals, kwv, s2, line, f"{ci.name}.{m}")
                return out
            raise Unsupported("call on unknown name " + cname)
        if isinstance(base, ast.Name) and base.id == "cls" and self.cur_class is not None and "cls" in st.loc:
            cname = self.dyn_class or self.cur_class.name
            found = self.repo.find_method(cname, m)
            if found is None:
                raise Unsupported(f"cls.{m}")
            ci, fn = found
            out = []
            for s1, vals in self.ev_args(n.args, st):
                for s2, kwv in self.ev_kwargs(n, s1):
                    first = [SV(V.none, T.ANY)] if m in ci.classmethods else []
                    out += self.call_function(ci, fn, first + vals, kwv, s2, line, f"{ci.name}.{m}", dyn_class=cname)
            return out
        out = []
        for s1, o in self.ev(base, st):
            ot = T.strip_opt(o.ty)
            if o.ty.k == "opt":
                s1 = self.implicit_raise(s1, z3.Not(V.is_none(o.term)), "AttributeError", f"L{line}.call-none", f"`{ast.unparse(base)}` is not None when `.{m}()` is called", line)
                o = SV(o.term, ot)
            for s2, vals in self.ev_args(n.args, s1):
                s2 = s2.copy()
                if ot.k in ("list",) or (ot.k == "any" and m in ("append",)):
                    out += self.list_method(m, o, vals, s2, n)
                elif ot.k == "set":
                    if m == "add" and len(vals) == 1:
                        self.dict_store(s2, o, vals[0].term, V.boolv(True))
                        out.append((s2, NONE_SV))
                    else:
                        raise Unsupported(f"set.{m}")
                elif ot.k == "dict":
                    out += self.dict_method(m, o, vals, s2, n)
                elif ot.k == "str":
                    out += self.str_method(m, o, vals, s2, n)
                elif ot.k == "opaque":
                    if (ot.a[0], m) == ("Pattern", "search"):
                        r = SV(fresh("match", V), T.opt(Ty("opaque", ("Match",))))
                        out.append((s2, r))
                    elif (ot.a[0], m) == ("Match", "group"):
                        out.append((s2, SV(mk_str(fresh("group", StrS)), T.STR)))
                    else:
                        raise Unsupported(f"opaque method {ot.a[0]}.{m}")
                elif ot.k in ("obj", "sub"):
                    cname = ot.a[0]
                    found = self.repo.find_method(cname, m)
                    if found is None and self.class_has_field(cname, m):
                        # obj.field(...) where the field holds a callable object (e.g. a Counter)
                        fty = self.field_type(cname, m)
                        fc = T.class_of(fty)
                        callm = self.repo.find_method(fc, "__call__") if fc else None
                        if callm is None:
                            raise Unsupported(f"call of field {cname}.{m} of type {fty}")
                        fobj = self.field_read(s2, o.term, m, fty)
                        for s3, kwv in self.ev_kwargs(n, s2):
                            out += self.call_function(callm[0], callm[1], [fobj] + vals, kwv, s3, line, f"{fc}.__call__")
                        continue
                    if found is None and m in self.reg.opaque_methods.get(cname, {}):
                        rty = self.ty(self.reg.opaque_methods[cname][m])
                        rv = SV(fresh("acc_" + m, V), rty)
                        if rty.k != "any":
                            s2.pc = s2.pc + (self.has_type(rv.term, rty, s2),)
                        out.append((s2, rv))
                        continue
                    if found is None:
                        raise Unsupported(f"method {cname}.{m} not found")
                    if ot.k == "sub":
                        # dynamic dispatch: every subclass must resolve to the same function
                        for sc in self.repo.subclasses(cname):
                            f2 = self.repo.find_method(sc, m)
                            if f2 is None or f2[1] is not found[1]:
                                raise Unsupported(f"dynamic dispatch of {m} on Sub[{cname}] (overridden in {sc})")
                    ci, fn = found
                    for s3, kwv in self.ev_kwargs(n, s2):
                        out += self.call_function(ci, fn, [o] + vals, kwv, s3, line, f"{ci.name}.{m}")
                else:
                    raise Unsupported(f"method .{m}() on {o.ty}")
        return out

    def list_method(self, m: str, o: SV, vals: list[SV], st: St, n: ast.Call):
        r = as_r(o.term)
        ln = self.list_len(st, o)
        els = z3.Select(st.h("lel"), r)
        if m == "append":
            st.heap["lel"] = z3.Store(st.h("lel"), r, z3.Store(els, ln, vals[0].term))
            st.heap["llen"] = z3.Store(st.h("llen"), r, ln + 1)
            return [(st, NONE_SV)]
        if m == "copy":
            return [(st, self.list_copy(st, o))]
        if m == "pop" and not vals:
            st = self.implicit_raise(st, ln >= 1, "IndexError", f"L{n.lineno}.pop-empty", "pop() from a non-empty list (else IndexError)", n.lineno)
            v = self.list_read(st, o, ln - 1, self.elem_type(o.ty))
            st.heap["llen"] = z3.Store(st.h("llen"), r, ln - 1)
            return [(st, v)]
        if m == "insert" and z3.is_int_value(as_i(vals[0].term)) and as_i(vals[0].term).as_long() == 0:
            arr = fresh("ins", ArrIV)
            j = z3.Const(f"j!ins{next(_fresh)}", IntS)
            st.pc = st.pc + (z3.Select(arr, 0) == vals[1].term, z3.ForAll([j], z3.Implies(z3.And(0 <= j, j < ln), z3.Select(arr, j + 1) == z3.Select(els, j))))
            st.heap["lel"] = z3.Store(st.h("lel"), r, arr)
            st.heap["llen"] = z3.Store(st.h("llen"), r, ln + 1)
            return [(st, NONE_SV)]
        raise Unsupported(f"list.{m}")

    def dict_method(self, m: str, o: SV, vals: list[SV], st: St, n: ast.Call):
        ot = T.strip_opt(o.ty)
        if m == "get":
            k = vals[0]
            dflt = vals[1] if len(vals) > 1 else NONE_SV
            v = z3.If(self.dict_has(st, o, k.term), self.dict_val(st, o, k.term), dflt.term)
            ty = T.join(ot.a[1], dflt.ty)
            return [(st, self.read_typed(st, v, ty))]
        if m == "copy":
            r = self.alloc_ref(st, None)
            src = as_r(o.term)
            for key in ("dhas", "dval", "dsize"):
                st.heap[key] = z3.Store(st.h(key), r, z3.Select(st.h(key), src))
            return [(st, SV(V.ref(r), ot))]
        raise Unsupported(f"dict.{m}")

    def str_method(self, m: str, o: SV, vals: list[SV], st: St, n: ast.Call):
        s = as_s(o.term)
        if m == "count" and len(vals) == 1 and z3.is_string_value(as_s(vals[0].term)) and as_s(vals[0].term).as_string() == "\n":
            self.assumptions_used.add("str.count('\\n') is axiomatised: additive over concatenation, literals evaluated, >= 0 (cross-checked against CPython)")
            return [(st, SV(mk_int(str_count_nl(s)), T.INT))]
        if m == "startswith" and len(vals) == 1:
            return [(st, SV(mk_bool(z3.PrefixOf(as_s(vals[0].term), s)), T.BOOL))]
        if m == "splitlines" and not vals:
            self.assumptions_used.add("str.splitlines() returns some list of strings (opaque)")
            lst_ = self.new_list(st, [], T.lst(T.STR))
            ln = fresh("nlines", IntS)
            st.pc = st.pc + (ln >= 0,)
            st.heap["llen"] = z3.Store(st.h("llen"), as_r(lst_.term), ln)
            st.heap["lel"] = z3.Store(st.h("lel"), as_r(lst_.term), fresh("lines", ArrIV))
            return [(st, lst_)]
        if m in ("strip", "lstrip", "rstrip", "lower", "upper"):
            r = fresh(m, StrS)
            self.assumptions_used.add(f"str.{m}() returns an opaque string")
            return [(st, SV(mk_str(r), T.STR))]
        raise Unsupported(f"str.{m}")

    # ------------------------------------------------------------------ constructors
    def construct(self, cname: str, n: ast.Call, st: St):
        out = []
        found = self.repo.find_method(cname, "__init__")
        for s1, vals in self.ev_args(n.args, st):
            for s2, kwv in self.ev_kwargs(n, s1):
                s2 = s2.copy()
                r = self.alloc_ref(s2, cname)
                obj = SV(V.ref(r), T.obj(cname))
                if found is None:
                    out.append((s2, obj))
                    continue
                ci, fn = found
                for s3, _ in self.call_function(ci, fn, [obj] + vals, kwv, s2, n.lineno, f"{ci.name}.__init__", dyn_class=cname, force_inline=("%s:%s.__init__" % (ci.module, ci.name)) not in self.reg.contracts):
                    out.append((s3, obj))
        return out

    # ------------------------------------------------------------------ user functions
    dyn_class: str | None = None

    def bind_params(self, fn: ast.FunctionDef, vals: list[SV], kw: dict[str, SV], st: St, what: str) -> dict[str, SV]:
        a = fn.args
        if a.vararg or a.kwarg or a.posonlyargs:
            if fn.name == "__call__" and not vals[1:] and not kw:
                return {a.args[0].arg: vals[0]}
            raise Unsupported(f"*args/**kwargs in signature of {what}")
        params = [x.arg for x in a.args]
        bound: dict[str, SV] = {}
        if len(vals) > len(params):
            raise Unsupported(f"too many arguments for {what}")
        for p, v in zip(params, vals):
            bound[p] = v
        for k, v in kw.items():
            if k not in params + [x.arg for x in a.kwonlyargs]:
                raise Unsupported(f"unknown keyword {k} for {what}")
            bound[k] = v
        defaults = dict(zip(params[len(params) - len(a.defaults) :], a.defaults))
        for x, d in zip(a.kwonlyargs, a.kw_defaults):
            if d is not None:
                defaults[x.arg] = d
        for p in params + [x.arg for x in a.kwonlyargs]:
            if p not in bound:
                if p not in defaults:
                    raise Unsupported(f"missing argument {p} for {what}")
                c = self.const_expr(defaults[p], self.cur_module)
                if c is None:
                    raise Unsupported(f"non-literal default for {p} of {what}")
                bound[p] = c
        return bound

    def call_function(self, ci: ClassInfo | None, fn: ast.FunctionDef, vals: list[SV], kw: dict[str, SV], st: St, line: int, what: str, module: str | None = None, dyn_class: str | None = None, force_inline: bool = False):
        module = module or (ci.module if ci else self.cur_module)
        qual = f"{ci.name}.{fn.name}" if ci else fn.name
        key = f"{module}:{qual}"
        contract = self.reg.contracts.get(key)
        if contract is not None and not contract.inline and not force_inline:
            return self.call_modular(contract, ci, fn, vals, kw, st, line, key)
        if self.inline_depth >= MAX_INLINE_DEPTH:
            raise Unsupported(f"inline depth exceeded at {what}")
        return self.call_inline(ci, fn, vals, kw, st, line, what, module, dyn_class)

    def call_inline(self, ci, fn, vals, kw, st: St, line, what, module, dyn_class):
        bound = self.bind_params(fn, vals, kw, st, what)
        # static types of parameters from annotations, unless the argument's own type is more precise
        for a in fn.args.args + fn.args.kwonlyargs:
            if a.arg in bound and a.annotation is not None:
                t = self.ty(a.annotation)
                if bound[a.arg].ty.k == "any" and t.k != "any":
                    bound[a.arg] = SV(bound[a.arg].term, t)
        saved = (self.cur_module, self.cur_class, self.dyn_class, self.try_stack, self.cur_contract if False else None)
        caller_loc = st.loc
        s0 = st.copy()
        s0.loc = bound
        self.cur_module, self.cur_class, self.dyn_class = module, ci, dyn_class or (T.class_of(vals[0].ty) if (ci and vals and fn.name not in (ci.staticmethods | ci.classmethods)) else None)
        outer_try = self.try_stack
        self.inline_depth += 1
        qual = f"{ci.name}.{fn.name}" if ci else fn.name
        ic = self.reg.contracts.get(f"{module}:{qual}")
        self.loop_ctx.append((self.loop_ordinals(fn), ic.loops if ic is not None else {}, qual + "/"))
        try:
            outs = self.exec_block(fn.body, s0)
        finally:
            self.loop_ctx.pop()
            self.inline_depth -= 1
            self.cur_module, self.cur_class, self.dyn_class = saved[0], saved[1], saved[2]
            self.try_stack = outer_try
        res = []
        for o in outs:
            s = o.st.copy()
            s.loc = dict(caller_loc)
            if o.kind == "ret":
                res.append((s, o.val))
            elif o.kind == "fall":
                res.append((s, NONE_SV))
            elif o.kind == "raise":
                self.raised.append(Out("raise", s, o.val))
            else:
                raise Unsupported("break/continue escaping a function")
        return res

    # ------------------------------------------------------------------ modular calls
    def contract_param_types(self, c: Contract, fn: ast.FunctionDef | None, ci: ClassInfo | None) -> dict[str, Ty]:
        tys: dict[str, Ty] = {}
        if fn is not None:
            for i, a in enumerate(fn.args.args + fn.args.kwonlyargs):
                if a.annotation is not None:
                    tys[a.arg] = self.ty(a.annotation)
                elif i == 0 and ci is not None and fn.name not in ci.staticmethods:
                    tys[a.arg] = T.ANY if fn.name in ci.classmethods else T.obj(ci.name)
        for k, v in c.types.items():
            tys[k] = self.ty(v)
        return tys

    def havoc_modifies(self, c: Contract, spec: SpecEval, st: St) -> None:
        """Apply the callee's frame: only what `modifies` names may change."""
        for mod in c.modifies:
            mod = mod.strip()
            if mod == "alloc":
                continue
            if mod.startswith("*"):
                key = mod[1:] if mod[1:] in ("llen", "lel", "dhas", "dval", "dsize") else "f." + mod[1:]
                st.heap[key] = fresh("hv_" + mod[1:], heap_sort(key))
                continue
            if mod.startswith("list(") or mod.startswith("dict("):
                inner = mod[5:-1]
                o = spec.with_state(st).value(inner)
                r = as_r(o.term)
                keys = ("llen", "lel") if mod.startswith("list(") else ("dhas", "dval", "dsize")
                for key in keys:
                    arr = st.h(key)
                    st.heap[key] = z3.Store(arr, r, fresh("hv_" + key, arr.sort().range()))
                continue
            node = ast.parse(mod, mode="eval").body
            if not isinstance(node, ast.Attribute):
                raise Unsupported("modifies clause " + mod)
            o = spec.with_state(st).value(node.value)
            key = "f." + node.attr
            st.heap[key] = z3.Store(st.h(key), as_r(o.term), fresh("hv_" + node.attr, V))

    def call_modular(self, c: Contract, ci, fn, vals, kw, st: St, line: int, key: str):
        bound = self.bind_params(fn, vals, kw, st, key)
        tys = self.contract_param_types(c, fn, ci)
        for p, t in tys.items():
            if p in bound and t.k != "any" and bound[p].ty.k == "any":
                bound[p] = SV(bound[p].term, t)
        pre = st.copy()
        spec_pre = SpecEval(self, pre, bound, pre, cur_class=ci)
        saved_mod = self.cur_module
        self.cur_module = c.target.split(":")[0]
        try:
            for i, r in enumerate(c.requires):
                self.emit(f"L{line}.call[{key.split(':')[1]}].requires[{i}]", f"precondition of {key}: {r}", st, spec_pre.boolean(r), "call-pre", line)
            post = st.copy()
            if "alloc" in c.modifies or c.returns:
                na = fresh("alloc", IntS)
                post.pc = post.pc + (na >= st.alloc,)
                post.alloc = na
            self.havoc_modifies(c, spec_pre, post)
            rty = self.ty(c.returns) if c.returns else (self.ty(fn.returns) if fn is not None and fn.returns is not None else T.ANY)
            res = SV(fresh("ret", V), rty)
            if rty.k == "none":
                res = NONE_SV
            elif rty.k != "any":
                post.pc = post.pc + (self.has_type(res.term, rty, post),)
            out = []
            # exceptional exits
            normal_facts = []
            for rz in c.raises:
                w = spec_pre.boolean(rz.when)
                if not z3.is_false(z3.simplify(w)):
                    self.raised.append(Out("raise", st.assume(w), rz.exc))
                if rz.iff:
                    normal_facts.append(z3.Not(w))
            spec_post = SpecEval(self, post, bound, pre, cur_class=ci, result=res)
            facts = [spec_post.boolean(e) for e in c.ensures]
            post = post.assume(*normal_facts, *facts)
            post.loc = dict(st.loc)
            out.append((post, res))
            return out
        finally:
            self.cur_module = saved_mod
