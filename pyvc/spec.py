"""Sidecar contract language (registry filled by /verif/contracts/*.py).

Contracts are keyed by "<module>:<qualname>" of the real function in /repo.  Clauses are Python *expression strings* in the
spec language (see engine.SpecEval): parameters, `result`, `old(e)` (heap reads in the entry heap), `all_int/any_int/all_val/
any_val(lambda x: ...)`, `implies(a,b)`, `iff(a,b)`, `ite(c,a,b)`, `fresh(x)`, `type_is(x, C)`, `isinstance(x, C)`, attribute
reads, `d[k]`, `k in d`, `len(x)`, arithmetic/comparisons, user spec functions declared with spec_fn().
"""
from __future__ import annotations

from dataclasses import dataclass, field
from typing import Callable


@dataclass
class LoopSpec:
    invariants: list[str] = field(default_factory=list)
    decreases: str | None = None
    types: dict[str, str] = field(default_factory=dict)  # static types of locals havoced by the loop


@dataclass
class Raises:
    exc: str
    when: str  # spec expression over the entry state; the exception may be raised only if it holds
    iff: bool = True  # and (if iff) must be raised whenever it holds (normal return implies not when)


@dataclass
class Contract:
    target: str
    types: dict[str, str] = field(default_factory=dict)
    returns: str | None = None
    requires: list[str] = field(default_factory=list)
    ensures: list[str] = field(default_factory=list)
    raises: list[Raises] = field(default_factory=list)
    modifies: list[str] = field(default_factory=list)
    loops: dict[int, LoopSpec] = field(default_factory=dict)
    inline: bool = False
    canaries: list[str] = field(default_factory=list)  # false ensures clauses that MUST be refuted
    monitor: Callable | None = None  # native run-time check used for replay and CPython cross-checks
    gen: Callable | None = None  # random generator of concrete inputs satisfying requires (cross-check)
    properties: list[str] = field(default_factory=list)  # property ids this contract serves
    note: str = ""
    lemma_src: str | None = None  # for lemmas: python source of a function verified against callee contracts
    trusted: bool = False  # assumed contract on a dependency (never verified; listed as assumption)
    decreases: str | None = None


class Registry:
    def __init__(self) -> None:
        self.contracts: dict[str, Contract] = {}
        self.field_types: dict[str, str] = {}  # "Class.field" -> type string
        self.spec_fns: dict[str, tuple[list[str], str]] = {}
        self.modules: set[str] = set()
        self.class_invariants: dict[str, list[str]] = {}
        self.opaque_classes: dict[str, dict[str, str]] = {}
        self.opaque_methods: dict[str, dict[str, str]] = {}

    def contract(self, target: str, **kw) -> Contract:
        loops = kw.pop("loops", {})
        raises = kw.pop("raises", [])
        c = Contract(target=target, **kw)
        c.loops = {k: (v if isinstance(v, LoopSpec) else LoopSpec(**v)) for k, v in loops.items()}
        c.raises = [r if isinstance(r, Raises) else Raises(*r) for r in raises]
        self.contracts[target] = c
        self.modules.add(target.split(":")[0])
        return c

    def lemma(self, name: str, src: str, **kw) -> Contract:
        c = Contract(target="lemma:" + name, lemma_src=src, **kw)
        self.contracts[c.target] = c
        return c

    def fields(self, mapping: dict[str, str]) -> None:
        self.field_types.update(mapping)

    def spec_fn(self, name: str, params: list[str], expr: str) -> None:
        self.spec_fns[name] = (params, expr)

    def opaque_class(self, name: str, fields: dict[str, str], methods: dict[str, str] | None = None) -> None:
        """A class from a dependency (e.g. an ANTLR context) known only by the typed fields the verified code reads and
        by side-effect free accessor methods whose results are unconstrained values of the given type."""
        self.opaque_classes[name] = fields
        self.opaque_methods[name] = methods or {}
        for f, t in fields.items():
            self.field_types[f"{name}.{f}"] = t

    def load_module(self, module: str) -> None:
        self.modules.add(module)
