"""Function-level VC generation and discharge."""
from __future__ import annotations

import ast
import time
from dataclasses import dataclass

import z3

from pyvc import types as T
from pyvc.calls import Calls
from pyvc.engine import relevant_only, SpecEval, St, SV, Out, VC, Unsupported, V, IntS, NONE_SV, fresh, as_r, base_heap, heap_sort, mk_int
from pyvc.execu import Executor
from pyvc.source import Repo
from pyvc.spec import Contract, Registry
from pyvc.stmts import Stmts


class Verifier(Stmts, Calls, Executor):
    pass


@dataclass
class Discharged:
    vc: VC
    status: str  # held | violated | undecided
    backend: str
    ms: float
    model: z3.ModelRef | None = None
    reason: str = ""


def frame_keys_allowed(c: Contract) -> set[str]:
    keys = set()
    for m in c.modifies:
        if m == "alloc":
            continue
        if m.startswith("*") and m[1:] in ("llen", "lel", "dhas", "dval", "dsize"):
            keys.add(m[1:])
        elif m.startswith("*"):
            keys.add("f." + m[1:])
        elif m.startswith("list("):
            keys |= {"llen", "lel"}
        elif m.startswith("dict("):
            keys |= {"dhas", "dval", "dsize"}
        else:
            keys.add("f." + m.rsplit(".", 1)[1])
    return keys


def structure_of(repo: Repo, fn: ast.FunctionDef) -> dict:
    """What a sidecar contract is written against besides the statements themselves: the loops of the function (their headers,
    in source order - loop invariants are keyed by this order) and the repository functions / classes / methods it calls
    (callees are used through their contracts or inlined).  If this changed, the sidecar's invariants belong to another
    program text and a failing obligation says nothing about the code (pyvc/run.py)."""
    loops = [n for n in ast.walk(fn) if isinstance(n, (ast.For, ast.While))]
    loops.sort(key=lambda n: (n.lineno, n.col_offset))
    heads = []
    for n in loops:
        if isinstance(n, ast.For):
            heads.append(f"for {ast.unparse(n.target)} in {ast.unparse(n.iter)}")
        else:
            heads.append(f"while {ast.unparse(n.test)}")
    comps = sum(1 for n in ast.walk(fn) if isinstance(n, (ast.ListComp, ast.DictComp, ast.SetComp, ast.GeneratorExp)))
    method_names = set()
    for ci in repo.classes.values():
        method_names |= set(ci.methods) | set(ci.properties)
    fn_names = set()
    for t in repo.modules.values():
        for node in t.body:
            if isinstance(node, ast.FunctionDef):
                fn_names.add(node.name)
    calls = set()
    for n in ast.walk(fn):
        if isinstance(n, ast.Call):
            f = n.func
            if isinstance(f, ast.Name) and (f.id in fn_names or f.id in repo.classes):
                calls.add(f.id)
            elif isinstance(f, ast.Attribute) and f.attr in method_names and not (isinstance(f.value, ast.Name) and f.value.id in ("logger", "logging", "warnings")):
                if f.attr not in ("append", "get", "items", "keys", "values", "copy", "pop", "remove", "add", "update", "extend", "insert", "index", "count", "format", "join", "split", "strip"):
                    calls.add("." + f.attr)
    return {"loops": heads, "comprehensions": comps, "calls": sorted(calls)}


def generate(repo: Repo, reg: Registry, c: Contract) -> tuple[list[VC], Verifier, St]:
    """All VCs of one function (or lemma) against its contract."""
    from pyvc import engine as _E

    _E._fresh.reset()
    _E._fresh_log.clear()
    eng = Verifier(repo, reg)
    eng.raised = []
    eng.cur_contract = c
    if c.lemma_src is not None:
        fn = ast.parse(c.lemma_src).body[0]
        assert isinstance(fn, ast.FunctionDef)
        module = c.types.get("__module__", "explorerscript.source_map")
        ci = None
        eng.fname = c.target
    else:
        module, qual = c.target.split(":")
        fn, ci = repo.function(module, qual)
        eng.fname = qual
    repo.load(module)
    for m in sorted(reg.modules):
        repo.load(m)
    from pyvc.source import ClassInfo

    for oc in reg.opaque_classes:
        if oc not in repo.classes:
            repo.classes[oc] = ClassInfo(oc, "<dependency>", ast.ClassDef(name=oc, bases=[], keywords=[], body=[], decorator_list=[]), [])
            repo.class_id.setdefault(oc, len(repo.class_id) + 1)
    eng.cur_module = module
    eng.cur_class = ci

    def lca(a, b):
        for c in repo.mro(a):
            if c in repo.mro(b):
                return c
        return None

    T.CLASS_LCA = lca
    st = St({}, {}, z3.Int("alloc0"), ())
    st.pc = (st.alloc >= 0,)
    tys = eng.contract_param_types(c, fn, ci)
    if fn.args.vararg or fn.args.kwarg:
        if fn.name != "__call__":
            raise Unsupported("*args in target signature")
    for a in fn.args.args + fn.args.kwonlyargs:
        ty = tys.get(a.arg, T.ANY)
        v = SV(z3.Const("p_" + a.arg, V), ty)
        st.loc[a.arg] = v
        if ty.k != "any":
            st.pc = st.pc + (eng.deep_type(v.term, ty, st),)
    if ci is not None and fn.name not in ci.staticmethods and fn.name not in ci.classmethods and fn.args.args:
        selfn = fn.args.args[0].arg
        sty = st.loc[selfn].ty
        eng.dyn_class = T.class_of(sty)
    # well-typed entry heap: every declared field of every object allocated at entry holds a value of its declared type,
    # and references stored in the entry heap point to objects allocated at entry
    r_ = z3.Const("r!wt", IntS)
    from pyvc.engine import cls_of as _cls_of

    for key in sorted(reg.field_types):
        cname, fld = key.rsplit(".", 1)
        if cname not in repo.classes:
            continue
        fty = eng.ty(reg.field_types[key])
        if fty.k == "any":
            continue
        subs = repo.subclasses(cname)
        val = z3.Select(st.h("f." + fld), r_)
        st.pc = st.pc + (z3.ForAll([r_], z3.Implies(z3.And(0 <= r_, r_ < st.alloc, z3.Or([_cls_of(r_) == eng.cid(c) for c in subs])), eng.deep_type(val, fty, st, 1))),)
    entry = st.copy()
    st.entry = entry
    entry.entry = entry
    spec0 = SpecEval(eng, st, st.loc, entry, cur_class=ci)
    pre = [spec0.boolean(r) for r in c.requires]
    st = st.assume(*pre)
    st.entry = entry
    entry_pc = st.pc
    # vacuity guard: the precondition must be satisfiable
    eng.emit("requires.cover", "precondition is satisfiable (vacuity guard)", st, z3.BoolVal(True), "cover", fn.lineno, cover=True)
    params0 = dict(st.loc)
    eng.loop_ctx = [(eng.loop_ordinals(fn), c.loops, "")]
    eng.structure = structure_of(repo, fn) if c.lemma_src is None else None
    outs = eng.exec_block(fn.body, st)
    allowed = frame_keys_allowed(c)
    n_ret = 0
    for o in outs:
        if o.kind in ("ret", "fall"):
            n_ret += 1
            res = o.val if o.kind == "ret" else NONE_SV
            if c.returns and res.ty.k == "any":
                res = SV(res.term, eng.ty(c.returns))
            # postconditions see parameters with their ENTRY values (as in Dafny: in-parameters are immutable in specs)
            loc = dict(o.st.loc)
            loc.update(params0)
            sp = SpecEval(eng, o.st, loc, entry, cur_class=ci, result=res)
            for i, e in enumerate(c.ensures):
                eng.emit(f"ensures[{i}]@ret{n_ret}", f"ensures: {e}", o.st, sp.boolean(e), "post", fn.lineno)
            for i, e in enumerate(c.canaries):
                eng.emit(f"canary[{i}]@ret{n_ret}", f"CANARY (must be refuted): {e}", o.st, sp.boolean(e), "canary", fn.lineno, canary=True)
            for rz in c.raises:
                if rz.iff:
                    w = SpecEval(eng, entry, params0, entry, cur_class=ci).boolean(rz.when)
                    eng.emit(f"raises[{rz.exc}].complete@ret{n_ret}", f"normal return only when not ({rz.when}) — else {rz.exc} must be raised", o.st, z3.Not(w), "raises", fn.lineno)
            # frame
            r = z3.Const("r!frame", IntS)
            for key, arr in sorted(o.st.heap.items()):
                b = entry.heap.get(key, base_heap(key))
                if arr.eq(b) or key in allowed:
                    continue
                eng.emit(f"frame[{key}]@ret{n_ret}", f"frame: heap component `{key}` of objects allocated before the call is unchanged (not in modifies)", o.st, z3.ForAll([r], z3.Implies(z3.And(0 <= r, r < entry.alloc), z3.Select(arr, r) == z3.Select(b, r))), "frame", fn.lineno)
            # pointwise modifies: everything of a modified field outside the named objects is unchanged
            for m in c.modifies:
                if m == "alloc" or m.startswith(("*", "list(", "dict(")):
                    continue
                node = ast.parse(m, mode="eval").body
                key = "f." + node.attr
                if key not in o.st.heap:
                    continue
                same = [x for x in c.modifies if not x.startswith(("*", "list(", "dict(")) and x != "alloc" and x.rsplit(".", 1)[1] == node.attr]
                objs = [as_r(SpecEval(eng, entry, params0, entry, cur_class=ci).value(ast.parse(x, mode="eval").body.value).term) for x in same]
                if m != same[0]:
                    continue
                b = entry.heap.get(key, base_heap(key))
                eng.emit(f"frame[{key}:others]@ret{n_ret}", f"frame: `{node.attr}` changes only on {', '.join(x.rsplit('.', 1)[0] for x in same)}", o.st, z3.ForAll([r], z3.Implies(z3.And(0 <= r, r < entry.alloc, *[r != x for x in objs]), z3.Select(o.st.heap[key], r) == z3.Select(b, r))), "frame", fn.lineno)
        elif o.kind == "raise":
            rz = [x for x in c.raises if x.exc == o.val]
            if not rz:
                eng.emit(f"no-{o.val}@L{eng.cur_line}", f"{o.val} is never raised (not in the contract's raises)", o.st, z3.BoolVal(False), "safety", fn.lineno)
            else:
                w = z3.Or([SpecEval(eng, entry, params0, entry, cur_class=ci).boolean(x.when) for x in rz])
                eng.emit(f"raises[{o.val}].sound", f"{o.val} is raised only when: {' or '.join(x.when for x in rz)}", o.st, w, "raises", fn.lineno)
        else:
            raise Unsupported(f"{o.kind} escapes the function")
    # unique names
    seen: dict[str, int] = {}
    for vc in eng.vcs:
        seen[vc.name] = seen.get(vc.name, 0) + 1
        if seen[vc.name] > 1:
            vc.name = f"{vc.name}~{seen[vc.name]}"
    return eng.vcs, eng, entry


BACKGROUND: list = []


def background_axioms():
    """Axioms for the uninterpreted string helpers (assumed contracts on builtins; cross-checked against CPython)."""
    if BACKGROUND:
        return BACKGROUND
    from pyvc.engine import int_str, parse_int, str_count_nl, StrS

    k = z3.Int("k!ax")
    a, b = z3.Const("a!ax", StrS), z3.Const("b!ax", StrS)
    BACKGROUND.extend(
        [
            z3.ForAll([k], parse_int(int_str(k)) == k),
            z3.ForAll([a], str_count_nl(a) >= 0),
            z3.ForAll([a, b], str_count_nl(z3.Concat(a, b)) == str_count_nl(a) + str_count_nl(b)),
            str_count_nl(z3.StringVal("")) == 0,
            str_count_nl(z3.StringVal("\n")) == 1,
        ]
    )
    return BACKGROUND


def uses_any(exprs, decls) -> bool:
    names = {d.name() for d in decls}
    seen = set()
    stack = list(exprs)
    while stack:
        e = stack.pop()
        if e.get_id() in seen:
            continue
        seen.add(e.get_id())
        if z3.is_app(e):
            if e.decl().name() in names:
                return True
            stack.extend(e.children())
        elif z3.is_quantifier(e):
            stack.append(e.body())
    return False


def literal_count_facts(exprs) -> list:
    """count_nl of every string literal occurring in the VC, evaluated (the axiom 'literals evaluated')."""
    from pyvc.engine import str_count_nl

    lits = set()
    seen = set()
    stack = list(exprs)
    while stack:
        e = stack.pop()
        if e.get_id() in seen:
            continue
        seen.add(e.get_id())
        if z3.is_string_value(e):
            lits.add(e.as_string())
        elif z3.is_app(e):
            stack.extend(e.children())
        elif z3.is_quantifier(e):
            stack.append(e.body())
    return [str_count_nl(z3.StringVal(s)) == s.count("\n") for s in sorted(lits)]


def heavy_quantified(f) -> bool:
    """f contains a quantifier with more than one bound variable or a quantifier inside a quantifier."""
    seen = set()
    stack = [(f, 0)]
    while stack:
        e, depth = stack.pop()
        if (e.get_id(), depth > 0) in seen:
            continue
        seen.add((e.get_id(), depth > 0))
        if z3.is_quantifier(e):
            if e.num_vars() > 1 or depth > 0:
                return True
            stack.append((e.body(), depth + 1))
        elif z3.is_app(e):
            stack.extend((c, depth) for c in e.children())
    return False


def discharge(vc: VC, timeout_ms: int = 10000, retry: bool | int = True) -> Discharged:
    # retry: 2 / True = every fallback, 1 = the cheap ones only (a contract that already has a failed obligation), 0 = none
    level = 2 if retry is True else int(retry)
    from pyvc.engine import int_str, parse_int, str_count_nl

    s = z3.Solver()
    s.set("timeout", 600 if vc.cover else (2500 if vc.canary else timeout_ms))
    vc = relevant_only(vc)
    body = list(vc.pc) + [vc.goal]
    if uses_any(body, [int_str, parse_int, str_count_nl]):
        s.add(*background_axioms())
        s.add(*literal_count_facts(body))
    s.add(*vc.pc)
    if not vc.cover:
        s.add(z3.Not(vc.goal))
    t0 = time.time()
    r = s.check()
    ms = (time.time() - t0) * 1000
    if vc.cover:
        if r == z3.sat:
            return Discharged(vc, "held", "z3", ms)
        if r == z3.unsat:
            return Discharged(vc, "violated", "z3", ms, None, "path condition unsatisfiable: contract is vacuous here")
        # satisfiability of quantified formulas is rarely confirmed by the solver; what matters for vacuity is that no
        # contradiction is derivable: a contradictory precondition/invariant gives a quick `unsat`.
        return Discharged(vc, "held", "z3", ms, None, "no contradiction derivable within budget (sat not confirmed)")
    if r == z3.unsat:
        return Discharged(vc, "held", "z3", ms)
    if r == z3.sat:
        return Discharged(vc, "violated", "z3", ms, s.model())
    if vc.canary or level == 0:
        return Discharged(vc, "undecided", "z3", ms, None, s.reason_unknown())
    # Hypotheses with several bound variables or nested quantifiers (deep typing of nested lists, two-index preconditions)
    # feed the instantiation engine without end when the goal does not need them.  Dropping hypotheses is sound (what is
    # proved from fewer assumptions is proved), so before restarting with other seeds: once without all of them, then
    # leaving out one at a time.  A `sat` from a reduced set means nothing and is ignored.
    hyps = list(s.assertions())
    heavy = [i for i, f in enumerate(hyps[:-1]) if heavy_quantified(f)]
    if heavy:
        variants = [("all heavy", set(heavy))] + ([(f"#{i}", {i}) for i in heavy] if len(heavy) > 1 and level >= 2 else [])
        for label, drop in variants[:6]:
            s3 = z3.Solver()
            s3.set("timeout", timeout_ms if label == "all heavy" else max(2000, timeout_ms // 2))
            s3.add(*[f for i, f in enumerate(hyps) if i not in drop])
            t0 = time.time()
            r3 = s3.check()
            ms += (time.time() - t0) * 1000
            if r3 == z3.unsat:
                return Discharged(vc, "held", f"z3(without {len(drop)} unneeded quantified hypothes{'is' if len(drop) == 1 else 'es'})", ms)
    # The solver's run time on one and the same formula varies by orders of magnitude between processes (internal tables are
    # ordered by addresses), and inside one process a repetition takes the same unlucky path again.  So the retries restart
    # with different random seeds: three at the plain budget, then one at four times the budget.
    reason = s.reason_unknown()
    for seed, factor in ((1, 1), (2, 1), (3, 1), (4, 4)) if level >= 2 else ((1, 1),):
        s2 = z3.Solver()
        s2.set("timeout", timeout_ms * factor)
        s2.set("random_seed", seed)
        s2.set("smt.random_seed", seed)
        s2.add(*s.assertions())
        t0 = time.time()
        r2 = s2.check()
        ms += (time.time() - t0) * 1000
        if r2 == z3.unsat:
            return Discharged(vc, "held", f"z3(restart, seed {seed})", ms)
        if r2 == z3.sat:
            return Discharged(vc, "violated", f"z3(restart, seed {seed})", ms, s2.model())
    return Discharged(vc, "undecided", "z3", ms, None, reason)


def verify_contract(repo: Repo, reg: Registry, c: Contract, timeout_ms: int = 10000, baseline_structure: dict | None = None):
    """-> (list[Discharged], engine, entry_state, error|None)"""
    try:
        vcs, eng, entry = generate(repo, reg, c)
    except Unsupported as e:
        return [], None, None, f"unsupported: {e}"
    except KeyError as e:
        return [], None, None, f"stale contract: {e}"
    out = []
    failures = 0
    # a function whose loop / call structure is no longer the one its sidecar was written for (pyvc/run.py): its obligations are
    # attempted once at the plain budget - failing ones are recorded as "proof to be redone", retries would only cost minutes
    restructured = baseline_structure is not None and getattr(eng, "structure", None) is not None and eng.structure != baseline_structure
    for vc in vcs:
        if restructured:
            out.append(discharge(vc, timeout_ms, retry=0))
            continue
        # once three obligations of a contract have failed, the remaining ones get the plain budget without the long
        # retry: the contract is evidently broken, and a broken tree must not make the check run for many minutes
        d = discharge(vc, timeout_ms, retry=2 if failures == 0 else (1 if failures < 3 else 0))
        if d.status != "held" and not vc.canary and not vc.cover:
            failures += 1
        out.append(d)
    return out, eng, entry, None
