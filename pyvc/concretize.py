"""Solver model -> concrete Python values (as a JSON-able recipe) -> real objects, for replaying counterexamples.

Recipe grammar:  None | bool | int | str | {"$ref": n} (alias of an already built node)
               | {"$id": n, "$list": [...]} | {"$id": n, "$tuple": [...]} | {"$id": n, "$dict": [[k, v], ...]}
               | {"$id": n, "$obj": "ClassName", "fields": {name: recipe}}
"""
from __future__ import annotations

import importlib
from typing import Any

import z3

from pyvc import types as T
from pyvc.engine import V, base_heap, SV, St
from pyvc.types import Ty


class Concretizer:
    def __init__(self, eng, model: z3.ModelRef, entry: St):
        self.eng = eng
        self.m = model
        self.entry = entry
        self.built: dict[int, Any] = {}
        self.candidates: list[z3.ExprRef] = []
        for d in model.decls():
            if d.arity() == 0 and d.range() == V:
                self.candidates.append(model[d])
        for i in range(-2, 9):
            self.candidates.append(V.intv(i))
        # string keys that occur in the model
        self.depth = 0

    def ev(self, t):
        return self.m.eval(t, model_completion=True)

    def heap(self, key: str):
        return self.entry.heap.get(key, base_heap(key))

    def value(self, term, ty: Ty) -> Any:
        v = self.ev(term)
        if z3.is_app(v) and v.decl().eq(V.none.decl()):
            return None
        if v.decl().eq(V.boolv):
            return bool(z3.is_true(v.arg(0)))
        if v.decl().eq(V.intv):
            return v.arg(0).as_long()
        if v.decl().eq(V.strv):
            return v.arg(0).as_string()
        r = v.arg(0).as_long()
        if r in self.built:
            return {"$ref": r}
        self.depth += 1
        try:
            if self.depth > 8:
                return None
            t = T.strip_opt(ty)
            cname = None
            cid = self.ev(self.eng_cls(r)).as_long()
            for c, i in self.eng.repo.class_id.items():
                if i == cid:
                    cname = c
            if t.k in ("list", "tuple", "vtuple") or (t.k == "any" and cname is None and self._looks_list(r)):
                node: dict = {"$id": r}
                self.built[r] = node
                n = self.ev(z3.Select(self.heap("llen"), r)).as_long()
                n = max(0, min(n, 12))
                els = z3.Select(self.heap("lel"), r)
                items = [self.value(z3.Select(els, i), self.eng.elem_type(t, i) if t.k != "any" else T.ANY) for i in range(n)]
                node["$tuple" if t.k in ("tuple", "vtuple") else "$list"] = items
                return node
            if t.k == "dict":
                node = {"$id": r}
                self.built[r] = node
                has = z3.Select(self.heap("dhas"), r)
                val = z3.Select(self.heap("dval"), r)
                items = []
                seen = set()
                for k in self.candidates:
                    kv = self.ev(k)
                    ks = str(kv)
                    if ks in seen:
                        continue
                    seen.add(ks)
                    if z3.is_true(self.ev(z3.Select(has, kv))):
                        items.append([self.value(kv, t.a[0]), self.value(z3.Select(val, kv), t.a[1])])
                node["$dict"] = items
                return node
            if t.k in ("obj", "sub") or cname is not None:
                if cname is None or (t.k in ("obj", "sub") and not self.eng.repo.is_subclass(cname, t.a[0])):
                    cname = t.a[0]
                node = {"$id": r, "$obj": cname, "fields": {}}
                self.built[r] = node
                for f in self.fields_of(cname):
                    node["fields"][f] = self.value(z3.Select(self.heap("f." + f), r), self.eng.field_type(cname, f))
                return node
            return None
        finally:
            self.depth -= 1

    def eng_cls(self, r: int):
        from pyvc.engine import cls_of

        return cls_of(z3.IntVal(r))

    def _looks_list(self, r: int) -> bool:
        return False

    def fields_of(self, cname: str) -> list[str]:
        import ast

        out: list[str] = []
        for c in self.eng.repo.mro(cname):
            ci = self.eng.repo.classes[c]
            init = ci.methods.get("__init__")
            if init is None:
                continue
            for node in ast.walk(init):
                if isinstance(node, ast.Attribute) and isinstance(node.ctx, ast.Store) and isinstance(node.value, ast.Name) and node.value.id == "self":
                    if node.attr not in out:
                        out.append(node.attr)
        for k in self.eng.reg.field_types:
            c, f = k.split(".")
            if c in self.eng.repo.mro(cname) and f not in out:
                out.append(f)
        return out


def concretize_args(eng, model, entry: St, params: dict[str, SV]) -> dict:
    c = Concretizer(eng, model, entry)
    return {name: c.value(sv.term, sv.ty) for name, sv in params.items()}


# ------------------------------------------------------------------ recipe -> real objects
def find_class(name: str):
    for modname in (
        "explorerscript.source_map",
        "explorerscript.ssb_converting.ssb_data_types",
        "explorerscript.ssb_converting.ssb_special_ops",
        "explorerscript.ssb_converting.compiler.utils",
        "explorerscript.macro",
        "explorerscript.ssb_converting.compiler.label_finalizer",
        "explorerscript.ssb_converting.compiler.label_jump_to_remover",
        "explorerscript.ssb_converting.decompiler.label_jump_to_resolver",
        "explorerscript.ssb_converting.ssb_decompiler",
        "explorerscript.ssb_script.ssb_converting.ssb_decompiler",
    ):
        mod = importlib.import_module(modname)
        obj = mod
        ok = True
        for part in name.split("."):
            if not hasattr(obj, part):
                ok = False
                break
            obj = getattr(obj, part)
        if ok and isinstance(obj, type):
            return obj
    raise KeyError(name)


def build(recipe: Any, memo: dict | None = None) -> Any:
    memo = {} if memo is None else memo
    if not isinstance(recipe, dict):
        return recipe
    if "$ref" in recipe:
        return memo[recipe["$ref"]]
    rid = recipe.get("$id")
    if "$list" in recipe:
        out: Any = []
        memo[rid] = out
        out.extend(build(x, memo) for x in recipe["$list"])
        return out
    if "$tuple" in recipe:
        out = tuple(build(x, memo) for x in recipe["$tuple"])
        memo[rid] = out
        return out
    if "$dict" in recipe:
        out = {}
        memo[rid] = out
        for k, v in recipe["$dict"]:
            out[build(k, memo)] = build(v, memo)
        return out
    if "$obj" in recipe:
        cls = find_class(recipe["$obj"])
        o = cls.__new__(cls)
        memo[rid] = o
        for f, v in recipe["fields"].items():
            try:
                object.__setattr__(o, f, build(v, memo))
            except AttributeError:
                pass
        return o
    raise ValueError(f"bad recipe {recipe}")


def build_args(recipes: dict) -> dict:
    memo: dict = {}
    return {k: build(v, memo) for k, v in recipes.items()}
