"""List / dict comprehensions with a quantified encoding (one symbolic element, generalised over all elements).

`[E(x) for x in xs]`, `{K(x): W(x) for x, y in d.items() if C(x)}` ...  The element expressions are executed ONCE by the
normal executor with the bound variable symbolic and allocation starting at a symbolic base; everything the element
evaluation created (fresh constants, allocation interval, heap writes) is then skolemised as a function of the bound
variable and asserted for all elements.  Obligations emitted while executing the element (bounds, callee preconditions)
have the bound variable free, i.e. they are proved for every element.  Extra obligations:
  * the element evaluation does not write to objects that existed before it (so elements are independent),
  * dict comprehension keys are pairwise distinct (otherwise the result depends on iteration order).
"""
from __future__ import annotations

import ast

import z3

from pyvc import engine as E
from pyvc import types as T
from pyvc.engine import SV, St, Unsupported, V, IntS, ArrIV, as_r, as_i, mk_int, fresh


def ev_comprehension(eng, n, st: St):
    if len(n.generators) != 1 or n.generators[0].is_async:
        raise Unsupported("comprehension with several generators")
    gen = n.generators[0]
    it = gen.iter
    mode = "plain"
    base = it
    if isinstance(it, ast.Call) and isinstance(it.func, ast.Name) and it.func.id == "enumerate" and len(it.args) == 1:
        mode, base = "enumerate", it.args[0]
    if isinstance(it, ast.Call) and isinstance(it.func, ast.Attribute) and it.func.attr in ("items", "keys", "values") and not it.args:
        mode, base = it.func.attr, it.func.value
    out = []
    for s1, src in eng.ev(base, st):
        out.append(_one(eng, n, gen, mode, src, s1.copy()))
    return out


def _one(eng, n, gen, mode, src: SV, st: St):
    line = n.lineno
    sty = T.strip_opt(src.ty)
    start_id = E.peek_fresh()
    # ---- bound variable and guard
    if sty.k == "dict":
        x = fresh("cx", V)
        kt, vt = sty.a
        guard = eng.dict_has(st, src, x)
        sq = st.copy()
        key = eng.read_typed(sq, x, kt)
        val = eng.dict_read(sq, src, x, vt)
        elem = key if mode in ("plain", "keys") else (val if mode == "values" else (key, val))
        bound = x
    elif sty.k in ("list", "tuple", "vtuple"):
        if mode not in ("plain", "enumerate"):
            raise Unsupported("dict view on list")
        j = fresh("cj", IntS)
        guard = z3.And(0 <= j, j < eng.list_len(st, src))
        sq = st.copy()
        elem = eng.list_read(sq, src, j, eng.elem_type(sty))
        if mode == "enumerate":
            elem = (SV(mk_int(j), T.INT), elem)
        bound = j
    else:
        raise Unsupported(f"comprehension over {src.ty}")
    abase = fresh("abase", IntS)
    sq.pc = sq.pc + (guard, abase >= st.alloc)
    sq.alloc = abase
    saved_loc = dict(st.loc)
    states = eng.bind_target(gen.target, elem, sq)
    if len(states) != 1:
        raise Unsupported("comprehension target binding branches")
    sq = states[0]
    # ---- filter
    cond = z3.BoolVal(True)
    for test in gen.ifs:
        rs = eng.ev(test, sq)
        if len(rs) != 1:
            # short-circuit conditions: evaluate purely instead
            sp = E.SpecEval(eng, sq, sq.loc, sq.entry)
            cond = z3.And(cond, sp.boolean(test))
        else:
            sq, cv = rs[0]
            cond = z3.And(cond, eng.truthy(cv, sq))
    sq = sq.assume(cond)
    # ---- element expression(s)
    mark = len(eng.raised)
    if isinstance(n, ast.DictComp):
        rk = eng.ev(n.key, sq)
        if len(rk) != 1:
            raise Unsupported("branching key expression in comprehension")
        sq, kv = rk[0]
        rv = eng.ev(n.value, sq)
        if len(rv) != 1:
            raise Unsupported("branching value expression in comprehension")
        sq, vv = rv[0]
    else:
        rv = eng.ev(n.elt, sq)
        if len(rv) != 1:
            raise Unsupported("branching element expression in comprehension")
        sq, vv = rv[0]
        kv = None
    if len(eng.raised) != mark:
        raise Unsupported("exception path inside comprehension element")
    aend = sq.alloc
    full_guard = z3.And(guard, cond)
    # ---- obligation: the element evaluation only writes fresh objects
    r = z3.Const("r!cf", IntS)
    for key_, arr in sorted(sq.heap.items()):
        b = st.heap.get(key_, E.base_heap(key_))
        if not arr.eq(b):
            eng.emit(f"L{line}.comp-pure[{key_}]", f"comprehension element does not modify pre-existing `{key_}` (elements are independent)", sq, z3.ForAll([r], z3.Implies(z3.And(0 <= r, r < st.alloc), z3.Select(arr, r) == z3.Select(b, r))), "safety", line)
    # ---- skolemise everything created during the element evaluation as a function of the bound variable
    created = [c for c in E.fresh_since(start_id) if not c.eq(bound)]
    bsort = bound.sort()
    subs = []
    for c in created:
        f = z3.Function(c.decl().name() + "$sk", bsort, c.sort())
        subs.append((c, f(bound)))

    def sk(t):
        return z3.substitute(t, *subs) if subs else t

    delta = [f for f in sq.pc[len(st.pc):]]
    g = sk(full_guard)
    out = st.copy()
    out.loc = saved_loc
    a_after = fresh("alloc", IntS)
    y = z3.Const("y!" + bound.decl().name(), bsort)
    sk_base, sk_end = sk(abase), sk(aend)

    def at(t, v):
        return z3.substitute(t, (bound, v))

    facts = [a_after >= st.alloc]
    facts.append(z3.ForAll([bound], z3.Implies(g, z3.And(st.alloc <= sk_base, sk_base <= sk_end, sk_end <= a_after))))
    facts.append(z3.ForAll([bound, y], z3.Implies(z3.And(g, at(g, y), bound != y), z3.Or(sk_end <= at(sk_base, y), at(sk_end, y) <= sk_base))))
    for f in delta:
        if f.eq(guard) or z3.is_true(f):
            continue
        facts.append(z3.ForAll([bound], z3.Implies(g, sk(f))))
    # new heap
    for key_, arr in sorted(sq.heap.items()):
        b = st.heap.get(key_, E.base_heap(key_))
        if arr.eq(b):
            continue
        na = fresh("H_" + key_, arr.sort())
        facts.append(z3.ForAll([r], z3.Implies(z3.And(0 <= r, r < st.alloc), z3.Select(na, r) == z3.Select(b, r))))
        facts.append(z3.ForAll([bound, r], z3.Implies(z3.And(g, sk_base <= r, r < sk_end), z3.Select(na, r) == z3.Select(sk(arr), r))))
        out.heap[key_] = na
    out.alloc = a_after
    out.pc = out.pc + tuple(facts)
    # ---- result container
    if isinstance(n, ast.DictComp):
        K, W = sk(kv.term), sk(vv.term)
        eng.emit(f"L{line}.comp-keys-distinct", "dict comprehension keys are pairwise distinct (else the result depends on iteration order)", out, z3.ForAll([bound, y], z3.Implies(z3.And(g, at(g, y), bound != y), K != at(K, y))), "safety", line)
        res = eng.new_dict(out, T.dct(kv.ty, vv.ty))
        rr = as_r(res.term)
        has = fresh("chas", E.ArrVB)
        val = fresh("cval", E.ArrVV)
        inv = z3.Function(f"cinv!{next(E._fresh)}", V, bsort)
        kq = z3.Const("k!cq", V)
        size = fresh("csize", IntS)
        out.heap["dhas"] = z3.Store(out.h("dhas"), rr, has)
        out.heap["dval"] = z3.Store(out.h("dval"), rr, val)
        out.heap["dsize"] = z3.Store(out.h("dsize"), rr, size)
        fs = [
            z3.ForAll([bound], z3.Implies(g, z3.And(z3.Select(has, K), z3.Select(val, K) == W, inv(K) == bound))),
            z3.ForAll([kq], z3.Implies(z3.Select(has, kq), z3.And(at(g, inv(kq)), at(K, inv(kq)) == kq))),
            size >= 0,
            z3.ForAll([kq], z3.Implies(z3.Select(has, kq), size >= 1)),
            z3.Implies(size >= 1, z3.Exists([kq], z3.Select(has, kq))),
        ]
        if not gen.ifs and sty.k == "dict":
            fs.append(size == eng.dict_size(st, src))
        out.pc = out.pc + tuple(fs)
        return out, res
    # list comprehension
    W = sk(vv.term)
    if gen.ifs:
        # filtered: the result is the order-preserving subsequence of the elements that pass the filter, given by a
        # strictly increasing index map idx: [0, n') -> source indices
        if sty.k == "dict":
            raise Unsupported("filtered list comprehension over a dict")
        res = eng.new_list(out, [], T.lst(vv.ty))
        rr = as_r(res.term)
        arr = fresh("cl", ArrIV)
        nlen = fresh("cn", IntS)
        idx = z3.Function(f"cidx!{next(E._fresh)}", IntS, IntS)
        pos = z3.Function(f"cpos!{next(E._fresh)}", IntS, IntS)
        a, b2 = z3.Int("a!cf"), z3.Int("b!cf")
        src_len = eng.list_len(st, src)
        out.pc = out.pc + (
            nlen >= 0, nlen <= src_len,
            z3.ForAll([a], z3.Implies(z3.And(0 <= a, a < nlen), z3.And(0 <= idx(a), idx(a) < src_len, at(g, idx(a)), z3.Select(arr, a) == at(W, idx(a)), pos(idx(a)) == a))),
            z3.ForAll([a, b2], z3.Implies(z3.And(0 <= a, a < b2, b2 < nlen), idx(a) < idx(b2))),
            z3.ForAll([bound], z3.Implies(g, z3.And(0 <= pos(bound), pos(bound) < nlen, idx(pos(bound)) == bound))),
        )
        out.heap["llen"] = z3.Store(out.h("llen"), rr, nlen)
        out.heap["lel"] = z3.Store(out.h("lel"), rr, arr)
        return out, res
    res = eng.new_list(out, [], T.lst(vv.ty))
    rr = as_r(res.term)
    arr = fresh("cl", ArrIV)
    if sty.k == "dict":
        nlen = eng.dict_size(st, src)
        pos = z3.Function(f"cpos!{next(E._fresh)}", V, IntS)
        kq = z3.Const("k!cq", V)
        jq = z3.Const("j!cq", IntS)
        ksq = fresh("ckseq", ArrIV)
        out.pc = out.pc + (
            z3.ForAll([bound], z3.Implies(g, z3.And(0 <= pos(bound), pos(bound) < nlen, z3.Select(ksq, pos(bound)) == bound, z3.Select(arr, pos(bound)) == W))),
            z3.ForAll([jq], z3.Implies(z3.And(0 <= jq, jq < nlen), z3.And(at(g, z3.Select(ksq, jq)), pos(z3.Select(ksq, jq)) == jq))),
        )
        eng.assumptions_used.add("a list built from a dict view has the dict's keys in some (unspecified) order")
    else:
        nlen = eng.list_len(st, src)
        out.pc = out.pc + (z3.ForAll([bound], z3.Implies(g, z3.Select(arr, bound) == W)),)
    out.heap["llen"] = z3.Store(out.h("llen"), rr, nlen)
    out.heap["lel"] = z3.Store(out.h("lel"), rr, arr)
    return out, res
