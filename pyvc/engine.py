"""Symbolic executor: real Python AST (from /repo) -> z3 verification conditions.

Encoding assumptions about Python's semantics (also listed in evidence):
  * int = mathematical integers (exact for Python); bool/None/str/int/references are the constructors of one datatype V.
  * objects, lists, tuples, dicts live in a heap of z3 arrays indexed by reference; allocation is a monotone counter;
    `is` is reference equality; `==` inlines the class's own __eq__ (identity if it defines none).
  * dict iteration order is modelled as *some* sequence of the keys (order-dependent claims fail closed).
  * static types (annotations, contract `types`) choose the encoding and are assumed for parameters and heap reads
    ("well-typed heap" precondition); they are never used to discharge a contract clause by themselves.
  * logger.*() calls are no-ops; exception message texts are dropped; f()/_() message helpers are opaque strings.
"""
from __future__ import annotations

import ast
import itertools
from dataclasses import dataclass, field, replace
from typing import Any, Callable

import z3

from pyvc import types as T
from pyvc.source import Repo, ClassInfo
from pyvc.spec import Contract, LoopSpec, Registry
from pyvc.types import Ty


class Unsupported(Exception):
    pass


# ------------------------------------------------------------------------------------------------ sorts
_V = z3.Datatype("V")
_V.declare("none")
_V.declare("boolv", ("b", z3.BoolSort()))
_V.declare("intv", ("i", z3.IntSort()))
_V.declare("strv", ("s", z3.StringSort()))
_V.declare("ref", ("r", z3.IntSort()))
V = _V.create()
IntS, BoolS, StrS = z3.IntSort(), z3.BoolSort(), z3.StringSort()
ArrIV = z3.ArraySort(IntS, V)  # field arrays, list contents
ArrII = z3.ArraySort(IntS, IntS)
ArrVB = z3.ArraySort(V, BoolS)
ArrVV = z3.ArraySort(V, V)

HEAP_SORTS = {
    "llen": ArrII,
    "lel": z3.ArraySort(IntS, ArrIV),
    "dhas": z3.ArraySort(IntS, ArrVB),
    "dval": z3.ArraySort(IntS, ArrVV),
    "dsize": ArrII,
}
cls_of = z3.Function("cls_of", IntS, IntS)
int_str = z3.Function("int_str", IntS, StrS)  # str(int)
parse_int = z3.Function("parse_int", StrS, IntS)  # int(str) / int(str, 0) on canonical spellings
str_count_nl = z3.Function("count_nl", StrS, IntS)
opaque_str = z3.Function("opaque_str", IntS, StrS)

class _Counter:
    """Resettable counter behind every generated name: reset at the start of each contract, so that the obligations of a
    contract are the same formulas (same names) whatever the worker process did before."""

    def __init__(self) -> None:
        self.n = 0

    def __next__(self) -> int:
        i = self.n
        self.n += 1
        return i

    def reset(self) -> None:
        self.n = 0


_fresh = _Counter()
_fresh_log: list = []  # (id, const) of every fresh constant, so that comprehensions can skolemise them


def fresh(name: str, sort) -> z3.ExprRef:
    i = next(_fresh)
    c = z3.Const(f"{name}!{i}", sort)
    _fresh_log.append((i, c))
    return c


def peek_fresh() -> int:
    i = next(_fresh)
    return i


def fresh_since(start: int) -> list:
    return [c for i, c in _fresh_log if i > start]


def heap_sort(key: str):
    return ArrIV if key.startswith("f.") else HEAP_SORTS[key]


def base_heap(key: str) -> z3.ExprRef:
    return z3.Const("H0_" + key, heap_sort(key))


def mk_int(x) -> z3.ExprRef:
    if isinstance(x, int):
        x = z3.IntVal(x)
    return V.intv(x)


def mk_bool(x) -> z3.ExprRef:
    if isinstance(x, bool):
        x = z3.BoolVal(x)
    return V.boolv(x)


def mk_str(x) -> z3.ExprRef:
    if isinstance(x, str):
        x = z3.StringVal(x)
    return V.strv(x)


def _unwrap(term, ctor, acc):
    if z3.is_app(term) and term.decl().eq(ctor):
        return term.arg(0)
    return acc(term)


def as_i(term):
    return _unwrap(term, V.intv, V.i)


def as_b(term):
    return _unwrap(term, V.boolv, V.b)


def as_s(term):
    return _unwrap(term, V.strv, V.s)


def as_r(term):
    return _unwrap(term, V.ref, V.r)


def _has_quantifier(e) -> bool:
    seen = set()
    stack = [e]
    while stack:
        x = stack.pop()
        if x.get_id() in seen:
            continue
        seen.add(x.get_id())
        if z3.is_quantifier(x):
            return True
        if z3.is_app(x):
            stack.extend(x.children())
    return False


@dataclass
class SV:
    term: z3.ExprRef  # of sort V
    ty: Ty = T.ANY


NONE_SV = SV(V.none, T.NONE)


@dataclass
class St:
    loc: dict[str, SV]
    heap: dict[str, z3.ExprRef]
    alloc: z3.ExprRef
    pc: tuple
    entry: "St | None" = None  # function entry state (for old())
    loop_entry: "St | None" = None
    ghosts: dict[str, Any] = field(default_factory=dict)  # loop iteration ghosts etc.

    def copy(self) -> "St":
        return St(dict(self.loc), dict(self.heap), self.alloc, self.pc, self.entry, self.loop_entry, dict(self.ghosts))

    def assume(self, *facts) -> "St":
        s = self.copy()
        s.pc = self.pc + tuple(f for f in facts if not z3.is_true(f))
        return s

    def h(self, key: str) -> z3.ExprRef:
        if key not in self.heap:
            self.heap[key] = base_heap(key)
        return self.heap[key]


@dataclass
class Out:
    kind: str  # fall | ret | raise | break | continue
    st: St
    val: Any = None  # SV for ret, exception class name for raise


@dataclass
class VC:
    name: str
    clause: str
    pc: tuple
    goal: z3.ExprRef
    kind: str = "post"  # post | safety | call-pre | inv-entry | inv-preserve | frame | cover | canary | decreases | raises
    cover: bool = False  # cover queries must be SAT (pc satisfiable)
    line: int = 0
    canary: bool = False


# ------------------------------------------------------------------------------------------------ engine
class Engine:
    def __init__(self, repo: Repo, reg: Registry):
        self.repo = repo
        self.reg = reg
        self.vcs: list[VC] = []
        self.fname = ""
        self.cur_module = ""
        self.cur_class: ClassInfo | None = None
        self.cur_contract: Contract | None = None
        self.loop_counter = 0
        self.inline_depth = 0
        self.imports: dict[str, dict[str, tuple[str, str]]] = {}
        self.assumptions_used: set[str] = set()
        self.try_stack: list[list[str]] = []
        self.notes: list[str] = []

    # ------------------------------------------------------------------ helpers: classes / types
    def class_names(self) -> set[str]:
        return set(self.repo.classes)

    def ty(self, node) -> Ty:
        return self._typed_dicts(T.parse_type(node, self.class_names()))

    def _typed_dicts(self, t: Ty) -> Ty:
        """TypedDict classes are plain dicts with str keys at run time."""
        if t.k in ("obj", "sub") and t.a[0] in self.repo.classes and "TypedDict" in self.repo.classes[t.a[0]].bases:
            return T.dct(T.STR, T.ANY)
        if t.k in ("opt", "list", "vtuple", "dict", "tuple"):
            return Ty(t.k, tuple(self._typed_dicts(x) if isinstance(x, Ty) else x for x in t.a))
        return t

    def cid(self, cname: str) -> int:
        return self.repo.class_id[cname]

    def is_instance(self, term, cname: str):
        if cname == "int":
            return z3.Or(V.is_intv(term), V.is_boolv(term))
        if cname == "bool":
            return V.is_boolv(term)
        if cname == "str":
            return V.is_strv(term)
        if cname in ("list", "dict", "tuple", "set"):
            raise Unsupported(f"isinstance(_, {cname}) on a value without static container type")
        subs = self.repo.subclasses(cname)
        if not subs:
            raise Unsupported(f"isinstance for unknown class {cname}")
        return z3.And(V.is_ref(term), z3.Or([cls_of(as_r(term)) == self.cid(c) for c in subs]))

    def has_type(self, term, ty: Ty, st: St, deep: bool = True):
        """Shallow typing fact (assumed for parameters / heap reads)."""
        k = ty.k
        if k == "int":
            return V.is_intv(term)
        if k == "bool":
            return V.is_boolv(term)
        if k == "str":
            return V.is_strv(term)
        if k == "none":
            return V.is_none(term)
        if k == "opt":
            return z3.Or(V.is_none(term), self.has_type(term, ty.a[0], st, deep))
        if k == "obj":
            if ty.a[0] not in self.repo.classes:
                return z3.BoolVal(True)
            return z3.And(V.is_ref(term), cls_of(as_r(term)) == self.cid(ty.a[0]), as_r(term) >= 0, as_r(term) < st.alloc)
        if k == "sub":
            if ty.a[0] not in self.repo.classes:
                return z3.BoolVal(True)
            return z3.And(self.is_instance(term, ty.a[0]), as_r(term) >= 0, as_r(term) < st.alloc)
        if k in ("list", "tuple", "vtuple"):
            r = as_r(term)
            facts = [V.is_ref(term), r >= 0, r < st.alloc, z3.Select(st.h("llen"), r) >= 0]
            if k == "tuple":
                facts.append(z3.Select(st.h("llen"), r) == len(ty.a))
            return z3.And(facts)
        if k in ("dict", "set"):
            r = as_r(term)
            return z3.And(V.is_ref(term), r >= 0, r < st.alloc, z3.Select(st.h("dsize"), r) >= 0)
        return z3.BoolVal(True)

    def deep_type(self, term, ty: Ty, st: St, depth: int = 2):
        """Typing of a value and (quantified) of the elements of the containers it denotes, `depth` levels down."""
        base = self.has_type(term, ty, st)
        t = T.strip_opt(ty)
        if depth <= 0 or t.k not in ("list", "vtuple", "dict", "tuple"):
            return base
        inner = []
        sv = SV(term, t)
        if t.k in ("list", "vtuple"):
            j = z3.Const(f"j!dt{next(_fresh)}", IntS)
            et = t.a[0]
            if et.k != "any":
                e = self.list_get(st, sv, j)
                inner.append(z3.ForAll([j], z3.Implies(z3.And(0 <= j, j < self.list_len(st, sv)), self.deep_type(e, et, st, depth - 1))))
        elif t.k == "tuple":
            for i, et in enumerate(t.a):
                if et.k != "any":
                    inner.append(self.deep_type(self.list_get(st, sv, z3.IntVal(i)), et, st, depth - 1))
        elif t.k == "dict":
            k = z3.Const(f"k!dt{next(_fresh)}", V)
            kt, vt = t.a
            parts = []
            if kt.k != "any":
                parts.append(self.has_type(k, kt, st))
            if vt.k != "any":
                parts.append(self.deep_type(self.dict_val(st, sv, k), vt, st, depth - 1))
            if parts:
                inner.append(z3.ForAll([k], z3.Implies(self.dict_has(st, sv, k), z3.And(parts))))
        if not inner:
            return base
        body = z3.And(base, *inner)
        if ty.k == "opt":
            return z3.Or(V.is_none(term), body)
        return body

    def count_fn(self, cname: str, negate: bool):
        key = (cname, negate)
        if not hasattr(self, "_count_fns"):
            self._count_fns = {}
        if key not in self._count_fns:
            f = z3.RecFunction(f"count_{'not_' if negate else ''}{cname}", ArrIV, IntS, IntS)
            els = z3.Const("els!cnt", ArrIV)
            n = z3.Int("n!cnt")
            p = self.is_instance(z3.Select(els, n - 1), cname)
            if negate:
                p = z3.Not(p)
            z3.RecAddDefinition(f, [els, n], z3.If(n <= 0, z3.IntVal(0), f(els, n - 1) + z3.If(p, 1, 0)))
            self._count_fns[key] = f
        return self._count_fns[key]

    def field_type(self, cname: str | None, fld: str) -> Ty:
        if cname is not None:
            for c in self.repo.mro(cname):
                key = f"{c}.{fld}"
                if key in self.reg.field_types:
                    return self.ty(self.reg.field_types[key])
            for c in self.repo.mro(cname):
                ci = self.repo.classes[c]
                if fld in ci.annotations:
                    return self.ty(ci.annotations[fld])
            # infer from __init__: self.fld = <param>
            for c in self.repo.mro(cname):
                ci = self.repo.classes[c]
                init = ci.methods.get("__init__")
                if init is None:
                    continue
                ann = {a.arg: a.annotation for a in init.args.args}
                for node in ast.walk(init):
                    if isinstance(node, (ast.Assign, ast.AnnAssign)):
                        tgts = node.targets if isinstance(node, ast.Assign) else [node.target]
                        for tg in tgts:
                            if isinstance(tg, ast.Attribute) and isinstance(tg.value, ast.Name) and tg.value.id == "self" and tg.attr == fld:
                                if isinstance(node, ast.AnnAssign):
                                    return self.ty(node.annotation)
                                if isinstance(node.value, ast.Name) and node.value.id in ann:
                                    return self.ty(ann[node.value.id])
        return T.ANY

    def plainly_infeasible(self, st: St, t) -> bool:
        """Cheap pruning of a branch whose condition contradicts one of the most recent quantifier-free facts of the path
        (typical for short-circuit operators: `a and b` evaluated to `a`, then tested again)."""
        recent = [f for f in st.pc[-12:] if not _has_quantifier(f)]
        if not recent:
            return False
        s = z3.Solver()
        s.set("timeout", 100)
        s.add(*recent)
        s.add(t)
        return s.check() == z3.unsat

    # ------------------------------------------------------------------ VC emission
    def emit(self, name: str, clause: str, st: St, goal, kind: str = "safety", line: int = 0, cover=False, canary=False):
        self.vcs.append(VC(f"{self.fname}#{name}", clause, st.pc, goal, kind, cover, line, canary))

    # ------------------------------------------------------------------ heap primitives
    def alloc_ref(self, st: St, cname: str | None):
        """Allocate a fresh reference (mutates st)."""
        if "qalloc" in st.ghosts:  # allocation inside a quantified comprehension element
            q = st.ghosts["qalloc"]
            r = q["next"]()
        else:
            r = fresh("new", IntS)
            st.pc = st.pc + (r == st.alloc,)
            st.alloc = st.alloc + 1
        if cname is not None:
            st.pc = st.pc + (cls_of(r) == self.cid(cname),)
        return r

    def new_list(self, st: St, elems: list[SV], ty: Ty) -> SV:
        r = self.alloc_ref(st, None)
        arr = z3.K(IntS, V.none)
        for i, e in enumerate(elems):
            arr = z3.Store(arr, i, e.term)
        st.heap["llen"] = z3.Store(st.h("llen"), r, len(elems))
        st.heap["lel"] = z3.Store(st.h("lel"), r, arr)
        return SV(V.ref(r), ty)

    def list_len(self, st: St, sv: SV):
        return z3.Select(st.h("llen"), as_r(sv.term))

    def list_get(self, st: St, sv: SV, idx) -> z3.ExprRef:
        return z3.Select(z3.Select(st.h("lel"), as_r(sv.term)), idx)

    def elem_type(self, ty: Ty, idx: int | None = None) -> Ty:
        ty = T.strip_opt(ty)
        if ty.k in ("list", "vtuple"):
            return ty.a[0]
        if ty.k == "tuple":
            if idx is not None and 0 <= idx < len(ty.a):
                return ty.a[idx]
            t = ty.a[0] if ty.a else T.ANY
            for x in ty.a[1:]:
                t = T.join(t, x)
            return t
        return T.ANY

    def read_typed(self, st: St, term, ty: Ty, cref=None, reader=None) -> SV:
        """A value read from the heap: assume its declared type (well-typed heap) and that references stored in the heap
        are allocated.  If the location (in container `cref`) still holds what it held at function entry, the reference
        was already allocated at function entry (well-formedness of the entry heap) — this is what separates old objects
        from objects allocated by the function itself."""
        if ty.k != "any":
            st.pc = st.pc + (self.has_type(term, ty, st),)
        else:
            st.pc = st.pc + (z3.Implies(V.is_ref(term), z3.And(as_r(term) >= 0, as_r(term) < st.alloc)),)
        if reader is not None and cref is not None and st.entry is not None and ty.k not in ("int", "bool", "str", "none"):
            try:
                old = reader(st.entry)
                st.pc = st.pc + (z3.Implies(z3.And(cref < st.entry.alloc, term == old, V.is_ref(term)), as_r(term) < st.entry.alloc),)
            except Exception:
                pass
        return SV(term, ty)

    def dict_has(self, st: St, d: SV, key):
        return z3.Select(z3.Select(st.h("dhas"), as_r(d.term)), key)

    def dict_val(self, st: St, d: SV, key):
        return z3.Select(z3.Select(st.h("dval"), as_r(d.term)), key)

    def dict_size(self, st: St, d: SV):
        return z3.Select(st.h("dsize"), as_r(d.term))

    def dict_wf(self, st: St, d: SV):
        """size/has link: size>=0; size==0 <=> no key."""
        k = z3.Const("k!wf", V)
        r = as_r(d.term)
        has = z3.Select(st.h("dhas"), r)
        size = z3.Select(st.h("dsize"), r)
        return z3.And(size >= 0, z3.ForAll([k], z3.Implies(z3.Select(has, k), size >= 1)), z3.Implies(size >= 1, z3.Exists([k], z3.Select(has, k))))

    def new_dict(self, st: St, ty: Ty) -> SV:
        r = self.alloc_ref(st, None)
        st.heap["dhas"] = z3.Store(st.h("dhas"), r, z3.K(V, z3.BoolVal(False)))
        st.heap["dval"] = z3.Store(st.h("dval"), r, z3.K(V, V.none))
        st.heap["dsize"] = z3.Store(st.h("dsize"), r, 0)
        return SV(V.ref(r), ty)

    def dict_store(self, st: St, d: SV, key, val) -> None:
        r = as_r(d.term)
        has = z3.Select(st.h("dhas"), r)
        size = z3.Select(st.h("dsize"), r)
        st.heap["dsize"] = z3.Store(st.h("dsize"), r, z3.If(z3.Select(has, key), size, size + 1))
        st.heap["dhas"] = z3.Store(st.h("dhas"), r, z3.Store(has, key, True))
        st.heap["dval"] = z3.Store(st.h("dval"), r, z3.Store(z3.Select(st.h("dval"), r), key, val))

    def field_read(self, st: St, obj_term, fld: str, ty: Ty) -> SV:
        r = as_r(obj_term)
        return self.read_typed(st, z3.Select(st.h("f." + fld), r), ty, r, lambda e: z3.Select(e.h("f." + fld), r))

    def list_read(self, st: St, c: SV, idx, ty: Ty) -> SV:
        r = as_r(c.term)
        return self.read_typed(st, self.list_get(st, c, idx), ty, r, lambda e: z3.Select(z3.Select(e.h("lel"), r), idx))

    def dict_read(self, st: St, c: SV, key, ty: Ty) -> SV:
        r = as_r(c.term)
        return self.read_typed(st, self.dict_val(st, c, key), ty, r, lambda e: z3.Select(z3.Select(e.h("dval"), r), key))

    def field_write(self, st: St, obj_term, fld: str, val) -> None:
        st.heap["f." + fld] = z3.Store(st.h("f." + fld), as_r(obj_term), val)

    # ------------------------------------------------------------------ truthiness / equality
    def truthy(self, sv: SV, st: St):
        t = sv.term
        ty = sv.ty
        if ty.k == "bool":
            return as_b(t)
        if ty.k == "int":
            return as_i(t) != 0
        if ty.k == "str":
            return as_s(t) != z3.StringVal("")
        if ty.k == "none":
            return z3.BoolVal(False)
        if ty.k in ("list", "tuple", "vtuple"):
            return self.list_len(st, sv) > 0
        if ty.k in ("dict", "set"):
            return self.dict_size(st, sv) > 0
        if ty.k in ("obj", "sub"):
            c = ty.a[0]
            if self.repo.find_method(c, "__bool__") or self.repo.find_method(c, "__len__"):
                raise Unsupported(f"truthiness of {c} with __bool__/__len__")
            return z3.BoolVal(True)
        if ty.k == "opaque":
            return z3.BoolVal(True)
        if ty.k == "opt":
            inner = self.truthy(SV(t, ty.a[0]), st)
            return z3.And(z3.Not(V.is_none(t)), inner)
        # untyped: only decidable for the primitive constructors
        return z3.If(
            V.is_none(t),
            False,
            z3.If(V.is_boolv(t), V.b(t), z3.If(V.is_intv(t), V.i(t) != 0, z3.If(V.is_strv(t), V.s(t) != z3.StringVal(""), z3.BoolVal(True)))),
        )

    def eq(self, a: SV, b: SV, st: St, depth: int = 0):
        """Python `==` as a z3 Bool (pure; may raise Unsupported)."""
        ta, tb = T.strip_opt(a.ty), T.strip_opt(b.ty)
        if a.ty.k == "none":
            return V.is_none(b.term)
        if b.ty.k == "none":
            return V.is_none(a.term)
        prim = ("int", "bool", "str")
        if ta.k in prim and tb.k in prim:
            if {ta.k, tb.k} == {"int", "bool"}:
                raise Unsupported("int == bool comparison")
            return a.term == b.term
        ca, cb = T.class_of(a.ty), T.class_of(b.ty)
        if ca is not None:
            m = self.repo.find_method(ca, "__eq__")
            if m is None:
                return a.term == b.term
            # all subclasses must share this __eq__ for Sub types
            if ta.k == "sub":
                for s in self.repo.subclasses(ca):
                    ms = self.repo.find_method(s, "__eq__")
                    if ms is None or ms[1] is not m[1]:
                        raise Unsupported(f"== on Sub[{ca}] with overriding __eq__ in {s}")
            if depth > 3:
                raise Unsupported("__eq__ nesting too deep")
            return self.inline_pure_eq(m, a, b, st, depth)
        if ta.k in ("list", "tuple", "vtuple") and tb.k in ("list", "tuple", "vtuple"):
            j = z3.Const(f"j!eq{next(_fresh)}", IntS)
            ea = SV(self.list_get(st, a, j), self.elem_type(ta))
            eb = SV(self.list_get(st, b, j), self.elem_type(tb))
            la, lb = self.list_len(st, a), self.list_len(st, b)
            inner = self.eq(ea, eb, st, depth + 1)
            body = z3.And(la == lb, z3.ForAll([j], z3.Implies(z3.And(0 <= j, j < la), inner)))
            if a.ty.k == "opt" or b.ty.k == "opt":
                return z3.If(z3.Or(V.is_none(a.term), V.is_none(b.term)), a.term == b.term, body)
            return body
        if ta.k == "dict" and tb.k == "dict":
            k = z3.Const(f"k!eq{next(_fresh)}", V)
            va = SV(self.dict_val(st, a, k), ta.a[1])
            vb = SV(self.dict_val(st, b, k), tb.a[1])
            inner = self.eq(va, vb, st, depth + 1)
            return z3.ForAll(
                [k],
                z3.And(
                    self.dict_has(st, a, k) == self.dict_has(st, b, k),
                    z3.Implies(self.dict_has(st, a, k), inner),
                ),
            )
        if ta.k == "any" or tb.k == "any":
            # sound only when both are primitives or compared by identity; we require the caller to know
            self.assumptions_used.add("`==` on untyped values is encoded as equality of V (primitive value or reference identity)")
            return a.term == b.term
        if ta.k != tb.k:
            return z3.BoolVal(False) if (ta.k in prim or tb.k in prim) else (a.term == b.term)
        raise Unsupported(f"== between {a.ty} and {b.ty}")

    def inline_pure_eq(self, m, a: SV, b: SV, st: St, depth: int):
        """Inline a side-effect free __eq__ of the usual shape: `if not isinstance(other, X): return False; return <expr>`."""
        ci, fn = m
        body = [s for s in fn.body if not (isinstance(s, ast.Expr) and isinstance(s.value, ast.Constant))]
        selfn, othern = fn.args.args[0].arg, fn.args.args[1].arg
        loc = {selfn: a, othern: b}
        guard = z3.BoolVal(True)
        spec = SpecEval(self, st.copy(), loc, st, cur_class=ci)
        for s in body:
            if isinstance(s, ast.If) and len(s.body) == 1 and isinstance(s.body[0], ast.Return) and not s.orelse:
                c = spec.boolean(s.test)
                rv = s.body[0].value
                if isinstance(rv, ast.Constant) and rv.value is False:
                    guard = z3.And(guard, z3.Not(c))
                    # narrowing: `not isinstance(other, C)` failed => other is C
                    t = s.test
                    if isinstance(t, ast.UnaryOp) and isinstance(t.op, ast.Not) and isinstance(t.operand, ast.Call) and getattr(t.operand.func, "id", "") == "isinstance":
                        carg = t.operand.args[1]
                        cname = carg.id if isinstance(carg, ast.Name) else (ci.name if ast.unparse(carg) == "self.__class__" else None)
                        if cname and T.class_of(loc[othern].ty) is None:
                            loc[othern] = SV(loc[othern].term, T.sub(cname))
                            spec.loc = loc
                    continue
                raise Unsupported("__eq__ shape")
            if isinstance(s, ast.Return):
                return z3.And(guard, spec.boolean(s.value))
            raise Unsupported("__eq__ shape")
        raise Unsupported("__eq__ without return")


# ------------------------------------------------------------------------------------------------ spec evaluation
class SpecEval:
    """Pure evaluation of spec expressions (and of side-effect-free Python expressions) to z3 terms."""

    def __init__(self, eng: Engine, st: St, loc: dict[str, SV], entry: St | None, cur_class: ClassInfo | None = None, result: SV | None = None):
        self.eng = eng
        self.st = st
        self.loc = loc
        self.entry = entry
        self.cur_class = cur_class
        self.result = result
        self.bound: dict[str, SV] = {}

    def with_state(self, st: St, locals_too: bool = False) -> "SpecEval":
        s = SpecEval(self.eng, st, st.loc if locals_too else self.loc, self.entry, self.cur_class, self.result)
        s.bound = dict(self.bound)
        return s

    # --- entry points
    def boolean(self, node) -> z3.ExprRef:
        if isinstance(node, str):
            node = ast.parse(node, mode="eval").body
        return self._bool(node)

    def value(self, node) -> SV:
        if isinstance(node, str):
            node = ast.parse(node, mode="eval").body
        return self._val(node)

    # --- booleans
    def _bool(self, n) -> z3.ExprRef:
        eng = self.eng
        if isinstance(n, ast.BoolOp):
            parts = [self._bool(v) for v in n.values]
            return z3.And(parts) if isinstance(n.op, ast.And) else z3.Or(parts)
        if isinstance(n, ast.UnaryOp) and isinstance(n.op, ast.Not):
            return z3.Not(self._bool(n.operand))
        if isinstance(n, ast.Compare):
            return self._compare(n)
        if isinstance(n, ast.Constant) and isinstance(n.value, bool):
            return z3.BoolVal(n.value)
        if isinstance(n, ast.Call) and isinstance(n.func, ast.Name):
            f = n.func.id
            if f == "implies":
                return z3.Implies(self._bool(n.args[0]), self._bool(n.args[1]))
            if f == "iff":
                return self._bool(n.args[0]) == self._bool(n.args[1])
            if f in ("all_int", "any_int", "all_val", "any_val", "all_ref", "any_ref"):
                return self._quant(n)
            if f == "isinstance":
                v = self._val(n.args[0])
                cn = n.args[1]
                if ast.unparse(cn).endswith(".__class__"):
                    # isinstance(x, obj.__class__): x is an instance of the dynamic class of obj
                    o = self._val(cn.value)
                    oc = T.class_of(o.ty)
                    if oc is None:
                        raise Unsupported("__class__ of an untyped value")
                    subs = eng.repo.subclasses(oc) if T.strip_opt(o.ty).k == "sub" else [oc]
                    return z3.Or([z3.And(cls_of(as_r(o.term)) == eng.cid(sc), eng.is_instance(v.term, sc)) for sc in subs])
                names = [e for e in cn.elts] if isinstance(cn, ast.Tuple) else [cn]
                return z3.Or([eng.is_instance(v.term, self._cname(x)) for x in names])
            if f == "type_is":
                v = self._val(n.args[0])
                return z3.And(V.is_ref(v.term), cls_of(as_r(v.term)) == eng.cid(self._cname(n.args[1])))
            if f == "fresh":
                v = self._val(n.args[0])
                assert self.entry is not None
                return z3.And(V.is_ref(v.term), as_r(v.term) >= self.entry.alloc, as_r(v.term) < self.st.alloc)
            if f == "allocated":
                v = self._val(n.args[0])
                return z3.And(V.is_ref(v.term), as_r(v.term) >= 0, as_r(v.term) < self.st.alloc)
            if f == "old_allocated":
                v = self._val(n.args[0])
                assert self.entry is not None
                return z3.And(V.is_ref(v.term), as_r(v.term) >= 0, as_r(v.term) < self.entry.alloc)
            if f == "is_int":
                return V.is_intv(self._val(n.args[0]).term)
            if f == "is_str":
                return V.is_strv(self._val(n.args[0]).term)
            if f == "is_none":
                return V.is_none(self._val(n.args[0]).term)
            if f == "is_ref":
                return V.is_ref(self._val(n.args[0]).term)
            if f == "has_type":
                v = self._val(n.args[0])
                ty = eng.ty(n.args[1].value if isinstance(n.args[1], ast.Constant) else n.args[1])
                return eng.has_type(v.term, ty, self.st)
            if f == "dict_wf":
                return eng.dict_wf(self.st, self._val(n.args[0]))
            if f == "loop_unchanged_list":
                # the list object has exactly the contents it had when the innermost enclosing loop was entered
                assert self.st.loop_entry is not None
                r = as_r(self._val(n.args[0]).term)
                return z3.And([z3.Select(self.st.h(k), r) == z3.Select(self.st.loop_entry.h(k), r) for k in ("llen", "lel")])
            if f in ("unchanged_list", "unchanged_dict"):
                # the container object has exactly the contents it had at function entry
                assert self.entry is not None
                r = as_r(self._val(n.args[0]).term)
                keys = ("llen", "lel") if f == "unchanged_list" else ("dhas", "dval", "dsize")
                return z3.And([z3.Select(self.st.h(k), r) == z3.Select(self.entry.h(k), r) for k in keys])
            if f == "old":
                assert self.entry is not None
                return self.with_state(self.entry)._bool(n.args[0])
            if f == "at_loop_entry":
                assert self.st.loop_entry is not None
                return self.with_state(self.st.loop_entry, True)._bool(n.args[0])
            if f == "ite":
                return z3.If(self._bool(n.args[0]), self._bool(n.args[1]), self._bool(n.args[2]))
            if f in eng.reg.spec_fns:
                return self._spec_call(f, n.args, want_bool=True)
        if isinstance(n, ast.IfExp):
            return z3.If(self._bool(n.test), self._bool(n.body), self._bool(n.orelse))
        v = self._val(n)
        return eng.truthy(v, self.st)

    def _cname(self, node) -> str:
        if isinstance(node, ast.Name):
            return node.id
        if isinstance(node, ast.Attribute):
            return T._dotted(node)
        if isinstance(node, ast.Constant) and isinstance(node.value, str):
            return node.value
        raise Unsupported("class name expected: " + ast.unparse(node))

    def _quant(self, n: ast.Call):
        f = n.func.id
        lam = n.args[0]
        assert isinstance(lam, ast.Lambda)
        names = [a.arg for a in lam.args.args]
        zs = []
        saved = dict(self.bound)
        guards = []
        for nm in names:
            if f.endswith("_int"):
                z = z3.Const(f"{nm}!q{next(_fresh)}", IntS)
                self.bound[nm] = SV(mk_int(z), T.INT)
            elif f.endswith("_ref"):
                z = z3.Const(f"{nm}!q{next(_fresh)}", IntS)
                ty = T.ANY
                if len(n.args) > 1:
                    ty = self.eng.ty(n.args[1].value if isinstance(n.args[1], ast.Constant) else n.args[1])
                self.bound[nm] = SV(V.ref(z), ty)
                if ty.k != "any":
                    guards.append(self.eng.has_type(V.ref(z), ty, self.st))
            else:
                z = z3.Const(f"{nm}!q{next(_fresh)}", V)
                self.bound[nm] = SV(z, T.ANY)
            zs.append(z)
        body = self._bool(lam.body)
        self.bound = saved
        if f.startswith("all"):
            if guards:
                body = z3.Implies(z3.And(guards), body)
            return z3.ForAll(zs, body)
        if guards:
            body = z3.And(z3.And(guards), body)
        return z3.Exists(zs, body)

    def _spec_call(self, f: str, args, want_bool: bool):
        params, expr = self.eng.reg.spec_fns[f]
        vals = [self._val(a) for a in args]
        saved = dict(self.bound)
        # spec functions are closed: only their parameters are visible
        inner = SpecEval(self.eng, self.st, {}, self.entry, self.cur_class, self.result)
        inner.bound = dict(zip(params, vals))
        node = ast.parse(expr, mode="eval").body
        out = inner._bool(node) if want_bool else inner._val(node)
        self.bound = saved
        return out

    def _compare(self, n: ast.Compare):
        eng = self.eng
        parts = []
        left = n.left
        for op, right in zip(n.ops, n.comparators):
            parts.append(self._cmp1(left, op, right))
            left = right
        return z3.And(parts) if len(parts) > 1 else parts[0]

    def _cmp1(self, ln, op, rn):
        eng = self.eng
        if isinstance(op, (ast.In, ast.NotIn)):
            res = self._contains(ln, rn)
            return z3.Not(res) if isinstance(op, ast.NotIn) else res
        a, b = self._val(ln), self._val(rn)
        if isinstance(op, ast.Is):
            return a.term == b.term
        if isinstance(op, ast.IsNot):
            return a.term != b.term
        if isinstance(op, ast.Eq):
            return eng.eq(a, b, self.st)
        if isinstance(op, ast.NotEq):
            return z3.Not(eng.eq(a, b, self.st))
        ia, ib = as_i(a.term), as_i(b.term)
        if isinstance(op, ast.Lt):
            return ia < ib
        if isinstance(op, ast.LtE):
            return ia <= ib
        if isinstance(op, ast.Gt):
            return ia > ib
        if isinstance(op, ast.GtE):
            return ia >= ib
        raise Unsupported("compare op")

    def _contains(self, ln, rn):
        eng = self.eng
        x = self._val(ln)
        if isinstance(rn, (ast.Tuple, ast.List, ast.Set)):
            return z3.Or([eng.eq(x, self._val(e), self.st) for e in rn.elts])
        if isinstance(rn, ast.Name) and rn.id not in self.bound and rn.id not in self.loc:
            coll = eng.const_members(rn.id)
            if coll is not None:
                return z3.Or([eng.eq(x, e, self.st) for e in coll]) if coll else z3.BoolVal(False)
        if isinstance(rn, ast.Call) and isinstance(rn.func, ast.Attribute) and rn.func.attr == "keys" and not rn.args:
            d = self._val(rn.func.value)
            return eng.dict_has(self.st, d, x.term)
        c = self._val(rn)
        ct = T.strip_opt(c.ty)
        if ct.k in ("dict", "set"):
            return eng.dict_has(self.st, c, x.term)
        if ct.k in ("list", "tuple", "vtuple"):
            j = z3.Const(f"j!in{next(_fresh)}", IntS)
            el = SV(eng.list_get(self.st, c, j), eng.elem_type(ct))
            return z3.Exists([j], z3.And(0 <= j, j < eng.list_len(self.st, c), eng.eq(x, el, self.st)))
        if ct.k == "str":
            return z3.Contains(as_s(c.term), as_s(x.term))
        raise Unsupported(f"`in` on {c.ty}")

    # --- values
    def _val(self, n) -> SV:
        eng = self.eng
        st = self.st
        if isinstance(n, ast.Constant):
            v = n.value
            if v is None:
                return NONE_SV
            if isinstance(v, bool):
                return SV(mk_bool(v), T.BOOL)
            if isinstance(v, int):
                return SV(mk_int(v), T.INT)
            if isinstance(v, str):
                return SV(mk_str(v), T.STR)
            raise Unsupported(f"constant {v!r}")
        if isinstance(n, ast.Name):
            if n.id in self.bound:
                return self.bound[n.id]
            if n.id == "result" and self.result is not None:
                return self.result
            if n.id in self.loc:
                return self.loc[n.id]
            if n.id in st.ghosts and isinstance(st.ghosts[n.id], SV):
                return st.ghosts[n.id]
            c = eng.module_const(n.id)
            if c is not None:
                return c
            raise Unsupported(f"unknown name {n.id} in spec")
        if isinstance(n, ast.Attribute):
            if isinstance(n.value, ast.Name) and n.value.id not in self.bound and n.value.id not in self.loc and n.value.id != "result":
                c = eng.module_const(ast.unparse(n))
                if c is not None:
                    return c
            o = self._val(n.value)
            return self._attr(o, n.attr)
        if isinstance(n, ast.Subscript) and isinstance(n.value, ast.Name) and n.value.id not in self.bound and n.value.id not in self.loc and eng.runtime_const(n.value.id) is not None:
            r = eng.const_dict_lookup(n.value.id, self._val(n.slice), st)
            if r is None:
                raise Unsupported("subscript of constant " + n.value.id)
            return r[1]
        if isinstance(n, ast.Subscript):
            c = self._val(n.value)
            ct = T.strip_opt(c.ty)
            if isinstance(n.slice, ast.Slice):
                raise Unsupported("slice in spec")
            if ct.k == "dict":
                k = self._val(n.slice)
                return SV(eng.dict_val(st, c, k.term), ct.a[1])
            if ct.k in ("list", "tuple", "vtuple", "any"):
                i = self._val(n.slice)
                idx = as_i(i.term)
                cidx = None
                if z3.is_int_value(idx):
                    cidx = idx.as_long()
                    if cidx < 0:
                        idx = eng.list_len(st, c) + cidx
                return SV(eng.list_get(st, c, idx), eng.elem_type(ct, cidx))
            raise Unsupported(f"subscript on {c.ty}")
        if isinstance(n, ast.BinOp):
            a, b = self._val(n.left), self._val(n.right)
            return eng.binop(n.op, a, b, st, pure=True)
        if isinstance(n, ast.UnaryOp):
            if isinstance(n.op, ast.USub):
                a = self._val(n.operand)
                return SV(mk_int(-as_i(a.term)), T.INT)
            if isinstance(n.op, ast.Not):
                return SV(mk_bool(z3.Not(self._bool(n.operand))), T.BOOL)
        if isinstance(n, (ast.BoolOp, ast.Compare)):
            return SV(mk_bool(self._bool(n)), T.BOOL)
        if isinstance(n, ast.IfExp):
            a, b = self._val(n.body), self._val(n.orelse)
            return SV(z3.If(self._bool(n.test), a.term, b.term), T.join(a.ty, b.ty))
        if isinstance(n, ast.Call):
            return self._call(n)
        raise Unsupported("spec expression " + ast.unparse(n))

    def _attr(self, o: SV, attr: str) -> SV:
        eng = self.eng
        cname = T.class_of(o.ty)
        if cname is not None:
            p = eng.repo.find_property(cname, attr)
            if p is not None:
                return eng.pure_property(p, o, self.st, self.entry)
        ty = eng.field_type(cname, attr)
        return SV(z3.Select(self.st.h("f." + attr), as_r(o.term)), ty)

    def _call(self, n: ast.Call) -> SV:
        eng = self.eng
        st = self.st
        if isinstance(n.func, ast.Name):
            f = n.func.id
            if f == "old":
                assert self.entry is not None
                return self.with_state(self.entry)._val(n.args[0])
            if f == "at_loop_entry":
                assert st.loop_entry is not None
                return self.with_state(st.loop_entry, True)._val(n.args[0])
            if f == "len":
                c = self._val(n.args[0])
                ct = T.strip_opt(c.ty)
                if ct.k == "dict":
                    return SV(mk_int(eng.dict_size(st, c)), T.INT)
                if ct.k == "str":
                    return SV(mk_int(z3.Length(as_s(c.term))), T.INT)
                return SV(mk_int(eng.list_len(st, c)), T.INT)
            if f == "ite":
                a, b = self._val(n.args[1]), self._val(n.args[2])
                return SV(z3.If(self._bool(n.args[0]), a.term, b.term), T.join(a.ty, b.ty))
            if f == "int":
                a = self._val(n.args[0])
                if T.strip_opt(a.ty).k == "str":
                    return SV(mk_int(parse_int(as_s(a.term))), T.INT)
                if a.ty.k == "int":
                    return a
                ac = T.class_of(a.ty)
                m = eng.repo.find_method(ac, "__int__") if ac else None
                if m is not None:
                    return eng.pure_property(m, a, st, self.entry)
                raise Unsupported("int() of " + str(a.ty))
            if f == "str":
                a = self._val(n.args[0])
                if a.ty.k == "int":
                    return SV(mk_str(int_str(as_i(a.term))), T.STR)
                if a.ty.k == "str":
                    return a
                raise Unsupported("str() of " + str(a.ty))
            if f == "typed":
                a = self._val(n.args[0])
                return SV(a.term, eng.ty(n.args[1].value if isinstance(n.args[1], ast.Constant) else n.args[1]))
            if f in ("count_inst", "count_not_inst"):
                # number of j < n with (not) isinstance(lst[j], C): recursive spec function over the list's element array
                lst_ = self._val(n.args[0])
                nn = as_i(self._val(n.args[1]).term)
                cn = self._cname(n.args[2])
                fn = eng.count_fn(cn, f == "count_not_inst")
                return SV(mk_int(fn(z3.Select(st.h("lel"), as_r(lst_.term)), nn)), T.INT)
            if f == "count_nl":
                a = self._val(n.args[0])
                return SV(mk_int(str_count_nl(as_s(a.term))), T.INT)
            if f in st.ghosts and callable(st.ghosts[f]):
                args = [self._val(a) for a in n.args]
                return st.ghosts[f](self, *args)
            if f in eng.reg.spec_fns:
                return self._spec_call(f, n.args, want_bool=False)
            if f in ("implies", "iff", "all_int", "any_int", "all_val", "any_val", "all_ref", "any_ref", "isinstance", "type_is", "fresh", "is_int", "is_none", "is_str", "is_ref", "allocated", "old_allocated", "has_type", "dict_wf", "unchanged_list", "unchanged_dict", "loop_unchanged_list"):
                return SV(mk_bool(self._bool(n)), T.BOOL)
        if isinstance(n.func, ast.Attribute):
            m = n.func.attr
            if m == "get" and len(n.args) in (1, 2):
                d = self._val(n.func.value)
                if T.strip_opt(d.ty).k == "dict":
                    k = self._val(n.args[0])
                    dflt = self._val(n.args[1]) if len(n.args) > 1 else NONE_SV
                    vt = T.strip_opt(d.ty).a[1]
                    return SV(z3.If(eng.dict_has(st, d, k.term), eng.dict_val(st, d, k.term), dflt.term), T.join(vt, dflt.ty))
            if m == "count" and len(n.args) == 1 and isinstance(n.args[0], ast.Constant) and n.args[0].value == "\n":
                s = self._val(n.func.value)
                return SV(mk_int(str_count_nl(as_s(s.term))), T.INT)
        raise Unsupported("spec call " + ast.unparse(n))


_CN_MEMO: dict = {}


def _const_names_one(f) -> frozenset:
    """names of the uninterpreted constants of one formula (memoised per top-level formula: path conditions share them)"""
    k = f.get_id()
    hit = _CN_MEMO.get(k)
    if hit is not None and hit[0].eq(f):
        return hit[1]
    names: set = set()
    seen: set = set()
    stack = [f]
    while stack:
        e = stack.pop()
        if e.get_id() in seen:
            continue
        seen.add(e.get_id())
        if z3.is_quantifier(e):
            stack.append(e.body())
        elif z3.is_app(e):
            if e.num_args() == 0 and e.decl().kind() == z3.Z3_OP_UNINTERPRETED:
                names.add(e.decl().name())
            stack.extend(e.children())
    out = frozenset(names)
    if len(_CN_MEMO) > 20000:
        _CN_MEMO.clear()
    _CN_MEMO[k] = (f, out)
    return out


def _const_names(exprs) -> set:
    names: set = set()
    for f in exprs:
        names |= _const_names_one(f)
    return names


def relevant_only(vc: "VC") -> "VC":
    """The well-typed-heap axioms (one per declared field of every class any contract module declares: `for all objects r
    allocated at entry, r.<field> has its declared type`) are part of every path condition.  An axiom about a field whose
    heap component occurs nowhere else in the obligation cannot take part in a proof of it; with ~90 of them the solver's
    instantiation engine becomes chaotic (the same obligation: 0.03 s or > 100 s depending on the process).  They are left
    out - dropping hypotheses is sound."""
    import re as _re
    from dataclasses import replace as _replace

    axioms = []
    rest = []
    for f in vc.pc:
        if z3.is_quantifier(f) and f.is_forall() and f.num_vars() == 1 and f.var_name(0) == "r!wt":
            axioms.append(f)
        else:
            rest.append(f)
    if not axioms:
        return vc
    used = _const_names(rest + [vc.goal])
    used_fields = set()
    for n in used:
        m = _re.search(r"f\.([A-Za-z_][A-Za-z_0-9]*)(?:!\d+)?$", n)
        if m:
            used_fields.add(m.group(1))
    keep = []
    for a in axioms:
        flds = set()
        for n in _const_names([a]):
            m = _re.search(r"f\.([A-Za-z_][A-Za-z_0-9]*)(?:!\d+)?$", n)
            if m:
                flds.add(m.group(1))
        if not flds or flds & used_fields:
            keep.append(a)
    if len(keep) == len(axioms):
        return vc
    keepset = {a.get_id() for a in keep}
    new_pc = tuple(f for f in vc.pc if not (z3.is_quantifier(f) and f.is_forall() and f.num_vars() == 1 and f.var_name(0) == "r!wt") or f.get_id() in keepset)
    try:
        return _replace(vc, pc=new_pc)
    except TypeError:
        import copy as _copy

        v2 = _copy.copy(vc)
        v2.pc = new_pc
        return v2
