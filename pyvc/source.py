"""Extraction of the real source: module ASTs, class table, function lookup.  Re-read from /repo on every run.

Dropped by extraction (stated in DESIGN.md §2.1): type annotations (used as sort hints only), docstrings,
`logger.*(...)` calls, the text of exception messages, `if TYPE_CHECKING:` blocks.
"""
from __future__ import annotations

import ast
import hashlib
import os
from dataclasses import dataclass, field


@dataclass
class ClassInfo:
    name: str
    module: str
    node: ast.ClassDef
    bases: list[str]
    methods: dict[str, ast.FunctionDef] = field(default_factory=dict)
    properties: dict[str, ast.FunctionDef] = field(default_factory=dict)
    setters: dict[str, ast.FunctionDef] = field(default_factory=dict)
    classmethods: set[str] = field(default_factory=set)
    staticmethods: set[str] = field(default_factory=set)
    annotations: dict[str, ast.expr] = field(default_factory=dict)
    class_attrs: dict[str, ast.expr] = field(default_factory=dict)


class Repo:
    def __init__(self, root: str):
        self.root = root
        self.modules: dict[str, ast.Module] = {}
        self.module_src: dict[str, str] = {}
        self.classes: dict[str, ClassInfo] = {}  # by simple class name (unique in this repo for the classes we touch)
        self.class_id: dict[str, int] = {}
        self.module_consts: dict[str, dict[str, ast.expr]] = {}

    def path_of(self, module: str) -> str:
        return os.path.join(self.root, *module.split(".")) + ".py"

    def load(self, module: str) -> ast.Module:
        if module in self.modules:
            return self.modules[module]
        path = self.path_of(module)
        if not os.path.realpath(path).startswith(os.path.realpath(self.root)):
            raise RuntimeError(f"{path} is not under {self.root}")
        with open(path, encoding="utf-8") as fh:
            src = fh.read()
        import warnings

        with warnings.catch_warnings():
            warnings.simplefilter("ignore", SyntaxWarning)
            tree = ast.parse(src, path)
        self.modules[module] = tree
        self.module_src[module] = src
        consts: dict[str, ast.expr] = {}
        for node in tree.body:
            if isinstance(node, ast.ClassDef):
                self._add_class(module, node)
            elif isinstance(node, ast.Assign) and len(node.targets) == 1 and isinstance(node.targets[0], ast.Name):
                consts[node.targets[0].id] = node.value
            elif isinstance(node, ast.AnnAssign) and isinstance(node.target, ast.Name) and node.value is not None:
                consts[node.target.id] = node.value
        self.module_consts[module] = consts
        return tree

    def _add_class(self, module: str, node: ast.ClassDef, prefix: str = "") -> None:
        name = prefix + node.name
        bases = []
        for b in node.bases:
            if isinstance(b, ast.Name):
                bases.append(b.id)
            elif isinstance(b, ast.Attribute):
                bases.append(b.attr)
            elif isinstance(b, ast.Subscript) and isinstance(b.value, ast.Name):
                bases.append(b.value.id)
        ci = ClassInfo(name, module, node, bases)
        for item in node.body:
            if isinstance(item, ast.FunctionDef):
                decos = [d.id if isinstance(d, ast.Name) else (d.attr if isinstance(d, ast.Attribute) else "") for d in item.decorator_list]
                if "property" in decos:
                    ci.properties[item.name] = item
                elif "setter" in decos:
                    ci.setters[item.name] = item
                else:
                    ci.methods[item.name] = item
                    if "classmethod" in decos:
                        ci.classmethods.add(item.name)
                    if "staticmethod" in decos:
                        ci.staticmethods.add(item.name)
            elif isinstance(item, ast.AnnAssign) and isinstance(item.target, ast.Name):
                ci.annotations[item.target.id] = item.annotation
                if item.value is not None:
                    ci.class_attrs[item.target.id] = item.value
            elif isinstance(item, ast.Assign) and len(item.targets) == 1 and isinstance(item.targets[0], ast.Name):
                ci.class_attrs[item.targets[0].id] = item.value
            elif isinstance(item, ast.ClassDef):
                self._add_class(module, item, prefix=name + ".")
        self.classes[name] = ci
        self.class_id.setdefault(name, len(self.class_id) + 1)

    # ------------------------------------------------------------------ lookups
    def mro(self, cls: str) -> list[str]:
        out = []
        todo = [cls]
        while todo:
            c = todo.pop(0)
            if c in out or c not in self.classes:
                continue
            out.append(c)
            todo = self.classes[c].bases + todo[0:]
        return out

    def find_method(self, cls: str, name: str) -> tuple[ClassInfo, ast.FunctionDef] | None:
        for c in self.mro(cls):
            ci = self.classes[c]
            if name in ci.methods:
                return ci, ci.methods[name]
        return None

    def find_property(self, cls: str, name: str) -> tuple[ClassInfo, ast.FunctionDef] | None:
        for c in self.mro(cls):
            ci = self.classes[c]
            if name in ci.properties:
                return ci, ci.properties[name]
        return None

    def subclasses(self, cls: str) -> list[str]:
        """cls and every loaded class that has cls in its mro (closed world of the loaded modules)."""
        return [c for c in self.classes if cls in self.mro(c)]

    def is_subclass(self, c: str, base: str) -> bool:
        return base in self.mro(c)

    def function(self, module: str, qualname: str) -> tuple[ast.FunctionDef, ClassInfo | None]:
        self.load(module)
        parts = qualname.split(".")
        if len(parts) == 1:
            for node in self.modules[module].body:
                if isinstance(node, ast.FunctionDef) and node.name == parts[0]:
                    return node, None
            raise KeyError(f"{module}:{qualname} not found")
        cname = ".".join(parts[:-1])
        ci = self.classes.get(cname)
        if ci is None or ci.module != module:
            raise KeyError(f"{module}:{qualname}: class not found")
        if parts[-1] in ci.methods:
            return ci.methods[parts[-1]], ci
        if parts[-1] in ci.properties:
            return ci.properties[parts[-1]], ci
        raise KeyError(f"{module}:{qualname} not found")

    def source_hash(self, module: str, fn: ast.AST) -> str:
        seg = ast.get_source_segment(self.module_src[module], fn) or ""
        return hashlib.sha1(seg.encode()).hexdigest()[:12]
