"""Statements, loops (cut by sidecar invariants), try/except."""
from __future__ import annotations

import ast

import z3

from pyvc import types as T
from pyvc.engine import (
    SpecEval, St, SV, Out, Unsupported, V, IntS, StrS, ArrIV, NONE_SV,
    mk_int, mk_bool, mk_str, as_i, as_s, as_r, fresh, cls_of, _fresh, heap_sort, base_heap,
)
from pyvc.execu import det_simplify
from pyvc.spec import LoopSpec
from pyvc.types import Ty


def assigned_names(stmts: list[ast.stmt]) -> set[str]:
    out: set[str] = set()
    for s in stmts:
        for node in ast.walk(s):
            if isinstance(node, ast.Name) and isinstance(node.ctx, (ast.Store, ast.Del)):
                out.add(node.id)
    return out


class Stmts:
    raised: list[Out]

    # ------------------------------------------------------------------ blocks
    def exec_block(self, stmts: list[ast.stmt], st: St) -> list[Out]:
        """Returns all outcomes; exceptional ones included (collected from self.raised)."""
        frontier = [st]
        done: list[Out] = []
        for s_index, s in enumerate(stmts):
            nxt: list[St] = []
            for cur in frontier:
                mark = len(self.raised)
                outs = self.exec_stmt(s, cur)
                # exceptions raised by expression evaluation inside this statement
                new_raised = self.raised[mark:]
                del self.raised[mark:]
                done += new_raised
                falls = [o.st for o in outs if o.kind == "fall"]
                done += [o for o in outs if o.kind != "fall"]
                # join the branches only if more statements follow: what comes after the block (postconditions, loop
                # invariants) is checked per branch, which keeps those obligations small
                if len(falls) > 1 and s_index < len(stmts) - 1:
                    falls = [self.merge_states(falls)]
                nxt += falls
            frontier = nxt
            if not frontier:
                break
        return done + [Out("fall", s1) for s1 in frontier]

    def merge_states(self, states: list[St]) -> St:
        """Join of the fall-through states of one statement: path conditions are disjoined, values ite-merged."""
        n = min(len(s.pc) for s in states)
        k = 0
        while k < n and all(s.pc[k].eq(states[0].pc[k]) for s in states[1:]):
            k += 1
        conds = [z3.And(*s.pc[k:]) if len(s.pc) > k else z3.BoolVal(True) for s in states]
        m = states[0].copy()
        m.pc = states[0].pc[:k] + (z3.Or(*conds),)

        def ite(vals):
            out = vals[-1]
            for c, v in zip(reversed(conds[:-1]), reversed(vals[:-1])):
                out = v if v.eq(out) else z3.If(c, v, out)
            return out

        names = set(states[0].loc)
        for s in states[1:]:
            names &= set(s.loc)
        m.loc = {}
        for nm in sorted(names):
            svs = [s.loc[nm] for s in states]
            ty = svs[0].ty
            for v in svs[1:]:
                ty = T.join(ty, v.ty)
            m.loc[nm] = SV(ite([v.term for v in svs]), ty)
        keys = set()
        for s in states:
            keys |= set(s.heap)
        m.heap = {}
        for key in sorted(keys):
            m.heap[key] = ite([s.heap.get(key, base_heap(key)) for s in states])
        m.alloc = ite([s.alloc for s in states])
        return m

    def exec_stmt(self, s: ast.stmt, st: St) -> list[Out]:
        self.cur_line = getattr(s, "lineno", self.cur_line)
        if isinstance(s, ast.Expr):
            if isinstance(s.value, ast.Constant):
                return [Out("fall", st)]  # docstring
            return [Out("fall", s1) for s1, _ in self.ev(s.value, st)]
        if isinstance(s, ast.Pass):
            return [Out("fall", st)]
        if isinstance(s, ast.Return):
            if s.value is None:
                return [Out("ret", st, NONE_SV)]
            return [Out("ret", s1, v) for s1, v in self.ev(s.value, st)]
        if isinstance(s, ast.Assign):
            outs = []
            for s1, v in self.ev(s.value, st):
                cur = [s1]
                for tgt in s.targets:
                    cur = [s3 for s2 in cur for s3 in self.assign(tgt, v, s2)]
                outs += [Out("fall", x) for x in cur]
            return outs
        if isinstance(s, ast.AnnAssign):
            if s.value is None:
                return [Out("fall", st)]
            outs = []
            for s1, v in self.ev(s.value, st):
                t = self.ty(s.annotation)
                if t.k != "any" and (v.ty.k == "any" or (v.ty.k in ("list", "dict") and v.ty.a[0].k == "any")):
                    v = SV(v.term, t)
                elif t.k == "opt" and v.ty.k != "any":
                    v = SV(v.term, T.opt(T.strip_opt(v.ty)) if v.ty.k != "none" else t)
                outs += [Out("fall", x) for x in self.assign(s.target, v, s1)]
            return outs
        if isinstance(s, ast.AugAssign):
            load = self.as_load(s.target)
            outs = []
            for s1, a in self.ev(load, st):
                for s2, b in self.ev(s.value, s1):
                    s2 = s2.copy()
                    ta = T.strip_opt(a.ty)
                    if isinstance(s.op, ast.Add) and ta.k == "list":
                        # in-place extend
                        r = as_r(a.term)
                        la, lb = self.list_len(s2, a), self.list_len(s2, b)
                        arr = fresh("ext", ArrIV)
                        j = z3.Const(f"j!ext{next(_fresh)}", IntS)
                        ea = z3.Select(s2.h("lel"), r)
                        eb = z3.Select(s2.h("lel"), as_r(b.term))
                        s2.pc = s2.pc + (
                            z3.ForAll([j], z3.Implies(z3.And(0 <= j, j < la), z3.Select(arr, j) == z3.Select(ea, j))),
                            z3.ForAll([j], z3.Implies(z3.And(0 <= j, j < lb), z3.Select(arr, la + j) == z3.Select(eb, j))),
                        )
                        s2.heap["llen"] = z3.Store(s2.h("llen"), r, la + lb)
                        s2.heap["lel"] = z3.Store(s2.h("lel"), r, arr)
                        outs.append(Out("fall", s2))
                        continue
                    v = self.binop(s.op, a, b, s2)
                    outs += [Out("fall", x) for x in self.assign(s.target, v, s2)]
            return outs
        if isinstance(s, ast.If):
            outs = []
            for s1, c in self.ev(s.test, st):
                t = det_simplify(self.truthy(c, s1))
                if not z3.is_false(t) and not self.plainly_infeasible(s1, t):
                    outs += self.exec_block(s.body, self.narrow(s.test, s1.assume(t), True))
                if not z3.is_true(t) and not self.plainly_infeasible(s1, z3.Not(t)):
                    outs += self.exec_block(s.orelse, self.narrow(s.test, s1.assume(z3.Not(t)), False))
            return outs
        if isinstance(s, ast.Assert):
            outs = []
            for s1, c in self.ev(s.test, st):
                t = self.truthy(c, s1)
                bad = s1.assume(z3.Not(t))
                self.handle_implicit(bad, "AssertionError", f"L{s.lineno}.assert", f"assert {ast.unparse(s.test)}", s.lineno, outs)
                outs.append(Out("fall", self.narrow(s.test, s1.assume(t), True)))
            return outs
        if isinstance(s, ast.Raise):
            if s.exc is None:
                raise Unsupported("bare raise")
            e = s.exc
            name = e.func.id if isinstance(e, ast.Call) and isinstance(e.func, ast.Name) else (e.id if isinstance(e, ast.Name) else None)
            if name is None:
                raise Unsupported("raise " + ast.unparse(e))
            return [Out("raise", st, name)]
        if isinstance(s, ast.While):
            return self.exec_while(s, st)
        if isinstance(s, ast.For):
            return self.exec_for(s, st)
        if isinstance(s, ast.Break):
            return [Out("break", st)]
        if isinstance(s, ast.Continue):
            return [Out("continue", st)]
        if isinstance(s, ast.Try):
            return self.exec_try(s, st)
        if isinstance(s, ast.Delete):
            cur = [st]
            for tgt in s.targets:
                cur = [s2 for s1 in cur for s2 in self.delete(tgt, s1)]
            return [Out("fall", x) for x in cur]
        if isinstance(s, (ast.Import, ast.ImportFrom, ast.Global, ast.Nonlocal)):
            return [Out("fall", st)]
        raise Unsupported("statement " + type(s).__name__)

    def handle_implicit(self, bad: St, exc: str, name: str, clause: str, line: int, outs: list[Out]) -> None:
        allowed = self.in_try_catching(exc) or any(r.exc == exc for r in (self.cur_contract.raises if self.cur_contract else []))
        if allowed:
            outs.append(Out("raise", bad, exc))
        else:
            self.emit(name, clause + f" (else {exc})", bad, z3.BoolVal(False), "safety", line)

    def as_load(self, tgt: ast.expr) -> ast.expr:
        import copy

        t = copy.deepcopy(tgt)
        for node in ast.walk(t):
            if hasattr(node, "ctx"):
                node.ctx = ast.Load()
        return t

    # ------------------------------------------------------------------ assignment targets
    def assign(self, tgt: ast.expr, v: SV, st: St) -> list[St]:
        if isinstance(tgt, ast.Name):
            s = st.copy()
            s.loc[tgt.id] = v
            return [s]
        if isinstance(tgt, ast.Attribute):
            res = []
            for s1, o in self.ev(tgt.value, st):
                s1 = s1.copy()
                cname = T.class_of(o.ty)
                if cname is not None:
                    for c in self.repo.mro(cname):
                        if tgt.attr in self.repo.classes[c].setters:
                            raise Unsupported("property setter " + tgt.attr)
                    decl = self.reg.field_types.get(f"{cname}.{tgt.attr}")
                    if decl is not None:
                        ft = self.ty(decl)
                        self.emit(f"L{tgt.lineno}.field-type[{tgt.attr}]", f"value stored in {cname}.{tgt.attr} has its declared type {ft}", s1, self.has_type(v.term, ft, s1), "safety", tgt.lineno)
                if o.ty.k == "opt":
                    s1 = self.implicit_raise(s1, z3.Not(V.is_none(o.term)), "AttributeError", f"L{tgt.lineno}.setattr-none", "target object is not None", tgt.lineno)
                self.field_write(s1, o.term, tgt.attr, v.term)
                res.append(s1)
            return res
        if isinstance(tgt, ast.Subscript):
            res = []
            for s1, c in self.ev(tgt.value, st):
                ct = T.strip_opt(c.ty)
                for s2, k in self.ev(tgt.slice, s1):
                    s2 = s2.copy()
                    if ct.k == "dict":
                        self.dict_store(s2, c, k.term, v.term)
                    elif ct.k == "list":
                        idx = as_i(k.term)
                        ln = self.list_len(s2, c)
                        s2 = self.implicit_raise(s2, z3.And(idx >= -ln, idx < ln), "IndexError", f"L{tgt.lineno}.store-index", "list assignment index in range", tgt.lineno)
                        real = z3.If(idx < 0, ln + idx, idx)
                        r = as_r(c.term)
                        s2.heap["lel"] = z3.Store(s2.h("lel"), r, z3.Store(z3.Select(s2.h("lel"), r), real, v.term))
                    else:
                        raise Unsupported(f"subscript store on {c.ty}")
                    res.append(s2)
            return res
        if isinstance(tgt, (ast.Tuple, ast.List)):
            if any(isinstance(e, ast.Starred) for e in tgt.elts):
                raise Unsupported("starred unpacking")
            n = len(tgt.elts)
            s1 = st.copy()
            vt = T.strip_opt(v.ty)
            if vt.k not in ("tuple", "list", "vtuple"):
                raise Unsupported(f"unpacking of {v.ty}")
            s1 = self.implicit_raise(s1, self.list_len(s1, v) == n, "ValueError", f"L{tgt.lineno}.unpack", f"unpacked sequence has {n} elements", tgt.lineno)
            cur = [s1]
            for i, e in enumerate(tgt.elts):
                nxt = []
                for s2 in cur:
                    s2 = s2.copy()
                    ev = self.list_read(s2, v, z3.IntVal(i), self.elem_type(vt, i))
                    nxt += self.assign(e, ev, s2)
                cur = nxt
            return cur
        raise Unsupported("assignment target " + type(tgt).__name__)

    def delete(self, tgt: ast.expr, st: St) -> list[St]:
        if isinstance(tgt, ast.Subscript) and not isinstance(tgt.slice, ast.Slice):
            res = []
            for s1, c in self.ev(tgt.value, st):
                ct = T.strip_opt(c.ty)
                if ct.k != "list":
                    raise Unsupported("del on " + str(c.ty))
                for s2, k in self.ev(tgt.slice, s1):
                    s2 = s2.copy()
                    idx = as_i(k.term)
                    ln = self.list_len(s2, c)
                    s2 = self.implicit_raise(s2, z3.And(idx >= -ln, idx < ln), "IndexError", f"L{tgt.lineno}.del-index", "del index in range", tgt.lineno)
                    real = z3.If(idx < 0, ln + idx, idx)
                    r = as_r(c.term)
                    els = z3.Select(s2.h("lel"), r)
                    arr = fresh("del", ArrIV)
                    j = z3.Const(f"j!del{next(_fresh)}", IntS)
                    s2.pc = s2.pc + (
                        z3.ForAll([j], z3.Implies(z3.And(0 <= j, j < real), z3.Select(arr, j) == z3.Select(els, j))),
                        z3.ForAll([j], z3.Implies(z3.And(real <= j, j < ln - 1), z3.Select(arr, j) == z3.Select(els, j + 1))),
                    )
                    s2.heap["lel"] = z3.Store(s2.h("lel"), r, arr)
                    s2.heap["llen"] = z3.Store(s2.h("llen"), r, ln - 1)
                    res.append(s2)
            return res
        raise Unsupported("del target")

    # ------------------------------------------------------------------ try / except
    def exec_try(self, s: ast.Try, st: St) -> list[Out]:
        if s.finalbody:
            raise Unsupported("try/finally")
        names = []
        for h in s.handlers:
            if h.type is None:
                names.append("")
            elif isinstance(h.type, ast.Name):
                names.append(h.type.id)
            elif isinstance(h.type, ast.Tuple):
                names += [e.id for e in h.type.elts if isinstance(e, ast.Name)]
            else:
                raise Unsupported("except clause")
        self.try_stack = self.try_stack + [names]
        try:
            outs = self.exec_block(s.body, st)
        finally:
            self.try_stack = self.try_stack[:-1]
        res: list[Out] = []
        for o in outs:
            if o.kind == "raise":
                handler = None
                for h in s.handlers:
                    hn = [""] if h.type is None else ([h.type.id] if isinstance(h.type, ast.Name) else [e.id for e in h.type.elts])
                    if any(self.exc_matches(o.val, x) for x in hn):
                        handler = h
                        break
                if handler is None:
                    res.append(o)
                else:
                    res += self.exec_block(handler.body, o.st)
            elif o.kind == "fall" and s.orelse:
                res += self.exec_block(s.orelse, o.st)
            else:
                res.append(o)
        return res

    EXC_PARENTS = {
        "IndexError": ["LookupError", "Exception"],
        "KeyError": ["LookupError", "Exception"],
        "ValueError": ["Exception"],
        "TypeError": ["Exception"],
        "AttributeError": ["Exception"],
        "AssertionError": ["Exception"],
        "StopIteration": ["Exception"],
        "SsbCompilerError": ["Exception"],
        "ParseError": ["Exception"],
        "ZeroDivisionError": ["ArithmeticError", "Exception"],
    }

    def exc_matches(self, raised: str, handler: str) -> bool:
        return handler in ("", "BaseException", raised) or handler in self.EXC_PARENTS.get(raised, ["Exception"])

    # ------------------------------------------------------------------ loops
    def loop_ordinals(self, fn: ast.FunctionDef) -> dict[int, int]:
        loops = [n for n in ast.walk(fn) if isinstance(n, (ast.For, ast.While))]
        loops.sort(key=lambda n: (n.lineno, n.col_offset))
        return {id(n): i for i, n in enumerate(loops)}

    def loop_spec(self, node=None) -> tuple[object, LoopSpec | None]:
        """Loops are keyed by their ordinal in source order within the function they are written in."""
        ids, loops, prefix = self.loop_ctx[-1]
        k = ids.get(id(node))
        if k is None:
            return f"{prefix}?", None
        return (f"{prefix}{k}" if prefix else k), loops.get(k)

    def heap_writes(self, stmts: list[ast.stmt]) -> tuple[set[str], bool]:
        """Heap components possibly written by `stmts` (syntactic, conservative) and whether anything may allocate."""
        keys: set[str] = set()
        allocs = False
        ann: dict[str, Ty] = {}
        for s in stmts:
            for node in ast.walk(s):
                if isinstance(node, ast.AnnAssign) and isinstance(node.target, ast.Name):
                    ann[node.target.id] = self.ty(node.annotation)
        for s in stmts:
            for node in ast.walk(s):
                if isinstance(node, ast.Attribute) and isinstance(node.ctx, (ast.Store, ast.Del)):
                    keys.add("f." + node.attr)
                elif isinstance(node, ast.Subscript) and isinstance(node.ctx, (ast.Store, ast.Del)):
                    keys |= {"llen", "lel", "dhas", "dval", "dsize"}
                elif isinstance(node, ast.AugAssign) and isinstance(node.target, ast.Name) and isinstance(node.op, ast.Add):
                    lt = self._scan_loc.get(node.target.id) if getattr(self, "_scan_loc", None) is not None else None
                    if lt is None and node.target.id in ann:
                        lt = SV(V.none, ann[node.target.id])
                    if lt is None or lt.ty.k in ("list", "any") or (lt.ty.k == "opt" and lt.ty.a[0].k == "list"):
                        keys |= {"llen", "lel"}  # possible in-place list extend
                elif isinstance(node, (ast.List, ast.Tuple, ast.Dict, ast.ListComp, ast.DictComp)) and isinstance(getattr(node, "ctx", ast.Load()), ast.Load):
                    allocs = True
                    keys |= {"llen", "lel", "dhas", "dval", "dsize"}
                elif isinstance(node, ast.Call):
                    src = ast.unparse(node.func)
                    if src.endswith(("Error", "Exception", "Warning")) or src.startswith("warnings."):
                        continue
                    if src in ("set", "list", "dict"):
                        allocs = True
                        keys |= {"llen", "lel", "dhas", "dval", "dsize"}
                        continue
                    if src.startswith(("logger.", "logging.")) or src in ("isinstance", "len", "int", "str", "max", "min", "f", "_", "enumerate", "zip", "range"):
                        continue
                    if isinstance(node.func, ast.Attribute) and node.func.attr == "add" and len(node.args) == 1:
                        keys |= {"dhas", "dval", "dsize"}  # set.add
                        continue
                    if isinstance(node.func, ast.Attribute) and node.func.attr in ("append", "insert", "pop", "copy"):
                        keys |= {"llen", "lel"}
                        allocs = allocs or node.func.attr == "copy"
                        continue
                    if isinstance(node.func, ast.Attribute) and node.func.attr in ("get", "keys", "values", "items", "count", "startswith", "strip", "lstrip", "rstrip", "search", "group", "endswith", "lower", "upper"):
                        continue
                    if isinstance(node.func, ast.Attribute) and node.func.attr in ("splitlines", "split"):
                        allocs = True
                        continue
                    if src in ("re.compile",):
                        continue
                    # constructor of a repo class (inlined): writes the fields its __init__ chain assigns, on a fresh object
                    cls_name = node.func.id if isinstance(node.func, ast.Name) else None
                    target = self.resolve_name(cls_name) if cls_name else None
                    if target is not None and target[0] == "class" and not any(k.endswith(f":{target[1]}.__init__") for k in self.reg.contracts):
                        allocs = True
                        ok = True
                        for cn in self.repo.mro(target[1]):
                            init = self.repo.classes[cn].methods.get("__init__")
                            if init is None:
                                continue
                            for sub in ast.walk(init):
                                if isinstance(sub, ast.Attribute) and isinstance(sub.ctx, ast.Store):
                                    keys.add("f." + sub.attr)
                                elif isinstance(sub, (ast.List, ast.Dict, ast.ListComp, ast.DictComp, ast.Tuple)) and isinstance(getattr(sub, "ctx", ast.Load()), ast.Load):
                                    keys |= {"llen", "lel", "dhas", "dval", "dsize"}
                                elif isinstance(sub, ast.Call) and not (isinstance(sub.func, ast.Attribute) and isinstance(sub.func.value, ast.Call) and getattr(sub.func.value.func, "id", "") == "super") and ast.unparse(sub.func) not in ("isinstance", "len", "str", "int", "super"):
                                    inner = self.resolve_name(sub.func.id) if isinstance(sub.func, ast.Name) else None
                                    if not (inner is not None and inner[0] == "class"):
                                        ok = False
                        if ok:
                            continue
                    # user call: use contract frame if there is one, else everything
                    allocs = True
                    c = self.callee_contract_for(node)
                    if c is None:
                        keys.add("*")
                    else:
                        for m in c.modifies:
                            if m == "alloc":
                                continue
                            if m.startswith("*") and m[1:] in ("llen", "lel", "dhas", "dval", "dsize"):
                                keys.add(m[1:])
                            elif m.startswith("*"):
                                keys.add("f." + m[1:])
                            elif m.startswith("list("):
                                keys |= {"llen", "lel"}
                            elif m.startswith("dict("):
                                keys |= {"dhas", "dval", "dsize"}
                            else:
                                keys.add("f." + m.rsplit(".", 1)[1])
        return keys, allocs

    def callee_contract_for(self, node: ast.Call):
        name = node.func.attr if isinstance(node.func, ast.Attribute) else (node.func.id if isinstance(node.func, ast.Name) else None)
        if name is None:
            return None
        cands = [c for k, c in self.reg.contracts.items() if k.split(":")[1].split(".")[-1] == name and not c.inline]
        if len(cands) == 1:
            return cands[0]
        if name in self.repo.classes:
            init = [c for k, c in self.reg.contracts.items() if k.endswith(f":{name}.__init__")]
            if init:
                return init[0]
            # constructor inlined: writes the fields its __init__ assigns (conservative: unknown)
        return None

    def havoc_for_loop(self, st: St, body: list[ast.stmt], extra_names: set[str], lspec: LoopSpec | None) -> St:
        s = st.copy()
        self._scan_loc = st.loc
        keys, allocs = self.heap_writes(body)
        self._scan_loc = None
        if "*" in keys:
            keys = set(s.heap.keys()) | (keys - {"*"}) | {"llen", "lel", "dhas", "dval", "dsize"}
            self.notes.append("loop body calls a function without contract: whole heap havoced")
        self._last_havoc_keys = set(keys)
        for k in sorted(keys):
            s.heap[k] = fresh("loop_" + k, heap_sort(k))
        if allocs:
            na = fresh("alloc", IntS)
            s.pc = s.pc + (na >= st.alloc,)
            s.alloc = na
        for nm in sorted(assigned_names(body) | extra_names):
            old = s.loc.get(nm)
            ty = old.ty if old is not None else T.ANY
            if lspec and nm in lspec.types:
                ty = self.ty(lspec.types[nm])
            v = SV(fresh(nm, V), ty)
            s.loc[nm] = v
            if ty.k != "any":
                s.pc = s.pc + (self.has_type(v.term, ty, s),)
        s.loop_entry = st
        return s


    # ------------------------------------------------------------------ automatic frame invariants (Houdini over a fixed candidate set)
    def frame_candidates(self, st: St, havoc_keys: set[str]):
        """Candidate invariants `objects allocated before the function / before the loop keep component K`."""
        cands = []
        r = z3.Const("r!fr", IntS)
        for key in sorted(havoc_keys):
            for which, ref_state in (("function entry", st.entry), ("loop entry", st)):
                if ref_state is None:
                    continue
                base = ref_state.heap.get(key, base_heap(key))
                alloc0 = ref_state.alloc

                def fn(s, key=key, base=base, alloc0=alloc0):
                    return z3.ForAll([r], z3.Implies(z3.And(0 <= r, r < alloc0), z3.Select(s.h(key), r) == z3.Select(base, r)))

                cands.append((f"[auto-frame] `{key}` of objects allocated before {which} is unchanged", fn))
        return cands

    def quick_valid(self, st: St, goal, timeout_ms: int = 1500) -> bool:
        from pyvc.engine import VC, relevant_only

        v = relevant_only(VC("houdini", "", tuple(st.pc), goal))
        s = z3.Solver()
        s.set("timeout", timeout_ms)
        s.add(*v.pc)
        s.add(z3.Not(goal))
        return s.check() == z3.unsat

    def houdini(self, cands, entry_st: St, make_head, run_body, k=None):
        """Largest subset of `cands` that holds on entry and is preserved (assuming the user invariants and the subset).

        A loop nested in another loop is executed again for every Houdini round of the outer loop, each time under FEWER
        assumed outer candidates; a candidate that could not be established for loop k once cannot be established in a
        later round either, so it is remembered and not tried again (saves one solver timeout per candidate and round)."""
        if not hasattr(self, "_houdini_bad"):
            self._houdini_bad = {}
        known_bad = self._houdini_bad.setdefault(k, set()) if k is not None else set()
        cands = [c for c in cands if c[0] not in known_bad]
        kept = [c for c in cands if self.quick_valid(entry_st, c[1](entry_st))]
        known_bad.update(c[0] for c in cands if c not in kept)
        while kept:
            saved = (len(self.vcs), len(self.raised), self.loop_counter, list(self.notes), set(self.assumptions_used))
            try:
                ends = run_body(make_head(kept))
            finally:
                del self.vcs[saved[0]:]
                del self.raised[saved[1]:]
                self.loop_counter = saved[2]
                self.notes[:] = saved[3]
            bad = [c for c in kept if not all(self.quick_valid(e, c[1](e)) for e in ends)]
            if not bad:
                break
            known_bad.update(c[0] for c in bad)
            kept = [c for c in kept if c not in bad]
        return kept

    def check_invariants(self, st: St, lspec: LoopSpec, kind: str, k: int, line: int) -> None:
        spec = SpecEval(self, st, st.loc, st.entry, cur_class=self.cur_class)
        for i, inv in enumerate(lspec.invariants):
            self.emit(f"loop{k}.{kind}[{i}]", f"loop invariant ({'holds on entry' if kind == 'entry' else 'is preserved'}): {inv}", st, spec.boolean(inv), "inv-" + kind, line)
        for i, (text, fn) in enumerate(getattr(self, "_auto_inv", {}).get(k, [])):
            self.emit(f"loop{k}.{kind}.auto[{i}]", f"loop invariant ({'holds on entry' if kind == 'entry' else 'is preserved'}): {text}", st, fn(st), "inv-" + kind, line)

    def exec_while(self, s: ast.While, st: St) -> list[Out]:
        k, lspec = self.loop_spec(s)
        if lspec is None:
            raise Unsupported(f"while loop #{k} at line {s.lineno} has no invariant in the sidecar")
        if s.orelse:
            raise Unsupported("while/else")
        before = st
        st = st.copy()
        st.loop_entry = st
        h0 = self.havoc_for_loop(st, s.body + [ast.Expr(s.test)], set(), lspec)
        keys = set(self._last_havoc_keys)

        def make_head(auto):
            hh = h0.copy()
            spec = SpecEval(self, hh, hh.loc, hh.entry, cur_class=self.cur_class)
            hh = hh.assume(*[spec.boolean(inv) for inv in lspec.invariants], *[fn(hh) for _, fn in auto])
            hh.loop_entry = st
            return hh

        def run_body(hh):
            ends = []
            for s1, c in self.ev(s.test, hh):
                t = self.truthy(c, s1)
                if self.plainly_infeasible(s1, t):
                    continue
                for o in self.exec_block(s.body, self.narrow(s.test, s1.assume(t), True)):
                    if o.kind in ("fall", "continue"):
                        ends.append(o.st)
            return ends

        if not hasattr(self, "_auto_inv"):
            self._auto_inv = {}
        self._auto_inv[k] = []
        self._auto_inv[k] = self.houdini(self.frame_candidates(st, keys), st, make_head, run_body, k) if keys else []
        self.check_invariants(st, lspec, "entry", k, s.lineno)
        h = make_head(self._auto_inv[k])
        # cover: the loop head is reachable under the invariant
        self.emit(f"loop{k}.cover", "loop invariant is satisfiable (reachability)", h, z3.BoolVal(True), "cover", s.lineno, cover=True)
        outs: list[Out] = []
        measure0 = None
        if lspec.decreases:
            measure0 = as_i(SpecEval(self, h, h.loc, h.entry).value(lspec.decreases).term)
        for s1, c in self.ev(s.test, h):
            t = self.truthy(c, s1)
            if not self.plainly_infeasible(s1, z3.Not(t)):
                outs.append(Out("fall", self.after_loop(s1.assume(z3.Not(t)), before)))
            if self.plainly_infeasible(s1, t):
                continue
            for o in self.exec_block(s.body, self.narrow(s.test, s1.assume(t), True)):
                if o.kind in ("fall", "continue"):
                    self.check_invariants(o.st, lspec, "preserve", k, s.lineno)
                    if measure0 is not None:
                        m1 = as_i(SpecEval(self, o.st, o.st.loc, o.st.entry).value(lspec.decreases).term)
                        self.emit(f"loop{k}.decreases", f"measure `{lspec.decreases}` decreases and stays >= 0 on every iteration (termination)", o.st, z3.And(m1 < measure0, m1 >= 0), "decreases", s.lineno)
                elif o.kind == "break":
                    outs.append(Out("fall", self.after_loop(o.st, before)))
                else:
                    o.st.loop_entry = before.loop_entry
                    outs.append(o)
        return outs

    def after_loop(self, s: St, before: St) -> St:
        s = s.copy()
        s.loop_entry = before.loop_entry
        s.ghosts = {k: v for k, v in s.ghosts.items() if not k.startswith("it_")} | {k: v for k, v in before.ghosts.items() if k.startswith("it_")}
        return s

    # for loops: `for t in <iter>` is `i = 0; while i < n: t = elem(i); body; i += 1`
    def exec_for(self, s: ast.For, st: St) -> list[Out]:
        k, lspec = self.loop_spec(s)
        if s.orelse:
            raise Unsupported("for/else")
        if lspec is None:
            lspec = LoopSpec()
            if self.inline_depth == 0:
                self.notes.append(f"for loop #{k} at line {s.lineno} has no invariant in the sidecar (only the implicit index bounds)")
        outs: list[Out] = []
        for s0, it in self.iter_setup(s.iter, st):
            outs += self._exec_for(s, s0, it, k, lspec, st)
        return outs

    def iter_setup(self, it: ast.expr, st: St):
        """-> [(state, iterator description)]: dict(n, elem(state, j) -> SV or tuple of SV, live_list=SV|None)."""
        if isinstance(it, ast.Call) and isinstance(it.func, ast.Name) and it.func.id == "enumerate" and len(it.args) == 1:
            res = []
            for s1, d in self.iter_setup(it.args[0], st):
                inner = d["elem"]
                d2 = dict(d)
                d2["elem"] = lambda ss, j, inner=inner: (SV(mk_int(j), T.INT), inner(ss, j))
                res.append((s1, d2))
            return res
        if isinstance(it, ast.Call) and isinstance(it.func, ast.Name) and it.func.id == "zip":
            raise Unsupported("zip iteration")
        if isinstance(it, ast.Call) and isinstance(it.func, ast.Name) and it.func.id == "range" and len(it.args) == 1:
            res = []
            for s1, nv in self.ev(it.args[0], st):
                n = as_i(nv.term)
                res.append((s1, {"n": z3.If(n < 0, 0, n), "elem": lambda ss, j: SV(mk_int(j), T.INT), "live": None}))
            return res
        if isinstance(it, ast.Call) and isinstance(it.func, ast.Name) and it.func.id == "range" and len(it.args) == 2 and not it.keywords:
            res = []
            for s1, av in self.ev(it.args[0], st):
                for s2, bv in self.ev(it.args[1], s1):
                    a, b = as_i(av.term), as_i(bv.term)
                    res.append((s2, {"n": z3.If(b - a < 0, 0, b - a), "elem": lambda ss, j, a=a: SV(mk_int(a + j), T.INT), "live": None}))
            return res
        mode = "plain"
        base = it
        if isinstance(it, ast.Call) and isinstance(it.func, ast.Attribute) and it.func.attr in ("items", "values", "keys") and not it.args:
            mode = it.func.attr
            base = it.func.value
        res = []
        for s1, c in self.ev(base, st):
            s1 = s1.copy()
            ct = T.strip_opt(c.ty)
            if ct.k == "dict":
                if mode == "plain":
                    mode2 = "keys"
                else:
                    mode2 = mode
                n = self.dict_size(s1, c)
                kseq = fresh("kseq", ArrIV)
                kpos = z3.Function(f"kpos!{next(_fresh)}", V, IntS)
                j = z3.Const(f"j!ks{next(_fresh)}", IntS)
                kk = z3.Const(f"k!ks{next(_fresh)}", V)
                has = z3.Select(s1.h("dhas"), as_r(c.term))
                s1.pc = s1.pc + (
                    n >= 0,
                    z3.ForAll([j], z3.Implies(z3.And(0 <= j, j < n), z3.And(z3.Select(has, z3.Select(kseq, j)), kpos(z3.Select(kseq, j)) == j))),
                    z3.ForAll([kk], z3.Implies(z3.Select(has, kk), z3.And(0 <= kpos(kk), kpos(kk) < n, z3.Select(kseq, kpos(kk)) == kk))),
                )
                self.assumptions_used.add("dict iteration visits every key exactly once in some (unspecified) order")
                kt, vt = ct.a

                def elem(ss, j, c=c, kseq=kseq, kt=kt, vt=vt, mode2=mode2):
                    key = self.read_typed(ss, z3.Select(kseq, j), kt)
                    if mode2 == "keys":
                        return key
                    val = self.dict_read(ss, c, key.term, vt)
                    if mode2 == "values":
                        return val
                    return (key, val)

                ghosts = {
                    "it_key": lambda sp, jv, kseq=kseq, kt=kt: SV(z3.Select(kseq, as_i(jv.term)), kt),
                    "it_val": lambda sp, jv, kseq=kseq, vt=vt, c=c: SV(self.dict_val(sp.st, c, z3.Select(kseq, as_i(jv.term))), vt),
                    "it_pos": lambda sp, kv, kpos=kpos: SV(mk_int(kpos(kv.term)), T.INT),
                }
                res.append((s1, {"n": n, "elem": elem, "live": None, "ghosts": ghosts}))
            elif ct.k in ("list", "tuple", "vtuple"):
                if mode != "plain":
                    raise Unsupported(f".{mode}() on a list")
                et = self.elem_type(ct)

                def elem(ss, j, c=c, et=et):
                    return self.list_read(ss, c, j, et)

                ghosts = {"it_elem": lambda sp, jv, c=c, et=et: SV(self.list_get(sp.st, c, as_i(jv.term)), et)}
                res.append((s1, {"n": None, "elem": elem, "live": c, "ghosts": ghosts}))
            else:
                raise Unsupported(f"iteration over {c.ty} ({ast.unparse(it)})")
        return res

    def _exec_for(self, s: ast.For, st: St, it: dict, k: int, lspec: LoopSpec, before: St) -> list[Out]:
        live: SV | None = it["live"]
        tnames = assigned_names([ast.Assign([s.target], ast.Constant(None))]) if True else set()
        tnames = {n.id for n in ast.walk(s.target) if isinstance(n, ast.Name)}
        st = st.copy()
        st.ghosts.update(it.get("ghosts", {}))
        i0 = SV(mk_int(0), T.INT)
        st.ghosts["it_i"] = i0
        n_fixed = it["n"]
        if n_fixed is not None:
            st.ghosts["it_n"] = SV(mk_int(n_fixed), T.INT)
        self._scan_loc = st.loc
        body_keys, _ = self.heap_writes(s.body)
        self._scan_loc = None
        len_may_change = live is not None and ("llen" in body_keys or "*" in body_keys)

        def cur_n(ss: St):
            return n_fixed if n_fixed is not None else self.list_len(ss, live)

        if live is not None and not len_may_change:
            st.ghosts["it_n"] = SV(mk_int(cur_n(st)), T.INT)
        st.loop_entry = st
        h0 = self.havoc_for_loop(st, s.body, tnames, lspec)
        keys = set(self._last_havoc_keys)
        iv = fresh("it_i", IntS)
        h0.ghosts["it_i"] = SV(mk_int(iv), T.INT)
        facts = [iv >= 0]
        if not len_may_change:
            if live is not None:
                # the iterated list keeps the length it had at loop entry
                facts.append(self.list_len(h0, live) == self.list_len(st, live))
            facts.append(iv <= cur_n(h0))
        h0 = h0.assume(*facts)

        def make_head(auto):
            hh = h0.copy()
            spec = SpecEval(self, hh, hh.loc, hh.entry, cur_class=self.cur_class)
            hh = hh.assume(*[spec.boolean(inv) for inv in lspec.invariants], *[fn(hh) for _, fn in auto])
            hh.loop_entry = st
            return hh

        def iterate(hh, on_end, on_other):
            b = hh.assume(iv < cur_n(hh))
            b = b.copy()
            e = it["elem"](b, iv)
            for s1 in self.bind_target(s.target, e, b):
                for o in self.exec_block(s.body, s1):
                    if o.kind in ("fall", "continue"):
                        nxt = o.st.copy()
                        nxt.ghosts["it_i"] = SV(mk_int(iv + 1), T.INT)
                        on_end(nxt)
                    else:
                        on_other(o)

        def run_body(hh):
            ends = []
            iterate(hh, ends.append, lambda o: None)
            return ends

        if not hasattr(self, "_auto_inv"):
            self._auto_inv = {}
        self._auto_inv[k] = []
        cands = self.frame_candidates(st, keys) if keys else []
        if len_may_change:
            cands.append(("[auto] loop index stays within the iterated list", lambda ss: as_i(ss.ghosts["it_i"].term) <= self.list_len(ss, live)))
        self._auto_inv[k] = self.houdini(cands, st, make_head, run_body, k) if cands else []
        self.check_invariants(st, lspec, "entry", k, s.lineno)
        h = make_head(self._auto_inv[k])
        if lspec.invariants:
            self.emit(f"loop{k}.cover", "loop invariant is satisfiable (reachability)", h, z3.BoolVal(True), "cover", s.lineno, cover=True)
        outs: list[Out] = []
        # exit
        ex = h.assume(iv >= cur_n(h))
        outs.append(Out("fall", self.after_loop(ex, before)))

        def on_end(nxt):
            self.check_invariants(nxt, lspec, "preserve", k, s.lineno)
            if live is not None and not len_may_change:
                self.emit(f"loop{k}.len-stable", "the iterated list keeps its length during the loop", nxt, self.list_len(nxt, live) == self.list_len(st, live), "inv-preserve", s.lineno)

        def on_other(o):
            if o.kind == "break":
                outs.append(Out("fall", self.after_loop(o.st, before)))
            else:
                outs.append(o)

        iterate(h, on_end, on_other)
        return outs

    def bind_target(self, tgt: ast.expr, e, st: St) -> list[St]:
        if isinstance(e, SV):
            return self.assign(tgt, e, st)
        if isinstance(tgt, ast.Name):
            s1 = st.copy()
            vals = list(e)
            tup = self.new_list(s1, self.flatten_tuple(vals, s1), Ty("tuple", tuple(v.ty if isinstance(v, SV) else T.ANY for v in vals)))
            s1.loc[tgt.id] = tup
            return [s1]
        if isinstance(tgt, (ast.Tuple, ast.List)) and len(tgt.elts) == len(e):
            cur = [st]
            for sub, v in zip(tgt.elts, e):
                cur = [s2 for s1 in cur for s2 in self.bind_target(sub, v, s1)]
            return cur
        raise Unsupported("for-loop target shape")

    def flatten_tuple(self, vals, st):
        out = []
        for v in vals:
            if isinstance(v, SV):
                out.append(v)
            else:
                out.append(self.new_list(st, self.flatten_tuple(list(v), st), Ty("tuple", tuple(x.ty if isinstance(x, SV) else T.ANY for x in v))))
        return out
