"""Driver of the deductive layer (T1) for one property: verify a set of sidecar contracts against /repo's current source.

For every contract (one worker process each):
  generate VCs from the real AST -> discharge with z3 -> for refuted obligations: concretise the model, rebuild real objects,
  call the real function under the contract's native monitor (replay) -> classify.
Also runs the CPython cross-check: the contract's native monitor on random inputs drawn by its generator.
"""
from __future__ import annotations

import importlib
import json
import multiprocessing as mp
import os
import random
import time
import traceback

from vlib.result import HELD, UNDECIDED, VIOLATED, Obligation, PropResult, StandIn, Violation, VERIF

BASELINE_PATH = os.path.join(VERIF, "contracts", "BASELINE_DISCHARGED.json")


def load_registry(modules: list[str]):
    from pyvc.spec import Registry

    reg = Registry()
    for m in modules:
        importlib.import_module("contracts." + m).register(reg)
    return reg


def load_natives(modules: list[str]) -> dict:
    nat: dict = {}
    for m in modules:
        try:
            mod = importlib.import_module("contracts.native_" + m)
        except ModuleNotFoundError as e:
            if e.name != "contracts.native_" + m:
                raise
            continue
        nat.update(mod.NATIVE)
    return nat


def _work(args):
    modules, key, repo_root, timeout_ms, seed, n_cross = args[:6]
    base_struct = args[6] if len(args) > 6 else None
    out = {"key": key, "obligations": [], "violations": [], "error": None, "info": {}, "cross": None, "solver_s": 0.0, "assumptions": [], "notes": []}
    try:
        import z3  # noqa

        from pyvc.source import Repo
        from pyvc.verify import verify_contract
        from pyvc.concretize import concretize_args, build_args

        reg = load_registry(modules)
        natives = load_natives(modules)
        c = reg.contracts[key]
        repo = Repo(repo_root)
        t0 = time.time()
        res, eng, entry, err = verify_contract(repo, reg, c, timeout_ms, base_struct)
        out["error"] = err
        if eng is not None:
            out["assumptions"] = sorted(eng.assumptions_used)
            out["notes"] = eng.notes
            if c.lemma_src is None:
                module, qual = key.split(":")
                fn, ci = repo.function(module, qual)
                out["info"] = {"function": key, "file": repo.path_of(module), "line": fn.lineno, "source_sha1": repo.source_hash(module, fn), "kind": "real function"}
            else:
                out["info"] = {"function": key, "kind": "lemma over callee contracts (sidecar)", "file": "contracts/", "line": 0}
        # digest of every property-carrying formula of this contract (deterministic: names are reset per contract)
        import hashlib as _hl

        hd = _hl.sha1()
        for d in res:
            if not d.vc.canary and not d.vc.cover:
                hd.update(d.vc.name.encode())
                for f in list(d.vc.pc) + [d.vc.goal]:
                    hd.update(str(f.hash()).encode())  # z3's structural hash (names included); sexpr() of these DAGs is too slow
        out["vc_digest"] = hd.hexdigest()[:16] if res else None
        out["structure"] = getattr(eng, "structure", None) if eng is not None else None
        native = natives.get(key)
        for d in res:
            ob = {"name": d.vc.name, "function": key, "clause": d.vc.clause, "status": d.status, "backend": d.backend, "ms": round(d.ms, 1), "reason": d.reason, "canary": d.vc.canary, "kind": d.vc.kind, "model": None}
            out["solver_s"] += d.ms / 1000.0
            if d.status == VIOLATED and not d.vc.canary:
                ob["model"] = str(d.model)[:4000] if d.model is not None else None
                viol = {"obligation": d.vc.name, "clause": d.vc.clause, "input": None, "observed": None, "reproduced": False}
                if d.model is not None and c.lemma_src is None:
                    try:
                        params = {k: v for k, v in entry.loc.items()}
                        recipe = concretize_args(eng, d.model, entry, params)
                        viol["input"] = recipe
                        if native is not None and native.get("monitor") is not None:
                            try:
                                msg = native["monitor"](build_args(recipe))
                                viol["observed"] = msg
                                viol["reproduced"] = msg is not None
                            except Exception as e:
                                # objects realised from a solver model may be ill-formed in ways the contract's `requires` does not
                                # rule out (the model of a refuted over-approximation); an exception on them is not a replayed
                                # failure - the generated inputs of the cross-check below are what exercises exception clauses
                                viol["observed"] = f"monitor could not be evaluated on the realised counterexample: {type(e).__name__}: {e}"
                                viol["reproduced"] = False
                    except Exception as e:
                        viol["observed"] = "could not realise the model as Python values: " + repr(e)
                out["violations"].append(viol)
            out["obligations"].append(ob)
        # CPython cross-check of the contract (and of the encoding): native monitor on random inputs
        if native is not None and native.get("gen") is not None and native.get("monitor") is not None and n_cross > 0:
            rng = random.Random(seed * 1000003 + hash(key) % 1000)
            rng = random.Random(f"{seed}:{key}")
            fails = []
            samples = []
            distinct = set()
            for i in range(n_cross):
                args_ = native["gen"](rng)
                rep = native.get("repr", repr)(args_)
                distinct.add(rep)
                if i < 2:
                    samples.append(rep[:300])
                try:
                    msg = native["monitor"](args_)
                except Exception as e:
                    msg = f"{type(e).__name__}: {e}"
                if msg is not None:
                    fails.append({"input_repr": rep[:2000], "observed": msg})
                    if len(fails) >= 3:
                        break
            out["cross"] = {"evaluations": n_cross, "distinct": len(distinct), "fails": fails, "samples": samples}
    except Exception:
        out["error"] = "crash: " + traceback.format_exc()
    return out


def run_t1(modules: list[str], keys: list[str] | None, prop: str, ctx, timeout_ms: int = 10000, n_cross: int = 300) -> PropResult:
    reg = load_registry(modules)
    natives = load_natives(modules)
    if keys is None:
        # every contract is verified by the check of EVERY property it is tagged with (a change that breaks a property must be
        # reported by that property's check, whichever other checks would also see it)
        keys = [k for k, c in reg.contracts.items() if c.properties and prop in c.properties and not c.trusted]
    baseline = set()
    baseline_digest: dict = {}
    baseline_structure: dict = {}
    if os.path.exists(BASELINE_PATH):
        _b = json.load(open(BASELINE_PATH))
        baseline = set(_b.get("fully_discharged", []))
        baseline_digest = _b.get("vc_digest", {})
        baseline_structure = _b.get("structure", {})
    res = PropResult(prop=prop, level="proof")
    tasks = [(modules, k, ctx.repo, timeout_ms, ctx.seed, n_cross if ctx.tier == "quick" else n_cross * 10, baseline_structure.get(k)) for k in keys]
    mpctx = mp.get_context("spawn")
    with mpctx.Pool(min(ctx.jobs, max(1, len(tasks))), maxtasksperchild=1) as pool:  # one fresh process (fresh z3 context) per contract: same formulas, same solver run, every time
        outs = pool.map(_work, tasks, chunksize=1)
    # budgets under load: a contract that was fully discharged on the baseline tree and now has UNDECIDED obligations is
    # verified once more on its own, after the pool has drained, with a 3x budget, before anything is reported
    for i, o in enumerate(outs):
        # (only when the formulas are the ones discharged on the baseline tree: then the failure can only be a matter of
        # budget; when the code or the contract changed, the restarts inside discharge() have already been spent)
        if o["key"] in baseline and baseline_digest.get(o["key"]) == o.get("vc_digest") and not o["error"] and 1 <= sum(1 for x in o["obligations"] if x["status"] != HELD and not x["canary"]) <= 2 and any(x["status"] == UNDECIDED and not x["canary"] for x in o["obligations"]):
            t = tasks[i]
            with mpctx.Pool(1, maxtasksperchild=1) as p2:
                outs[i] = p2.apply(_work, ((t[0], t[1], t[2], timeout_ms * 3, t[4], 0),))
            outs[i]["cross"] = o["cross"]
            outs[i]["second_attempt"] = True
    fully = []
    for o in outs:
        key = o["key"]
        c = reg.contracts[key]
        res.solver_s += o["solver_s"]
        for a in o["assumptions"]:
            if a not in res.assumptions:
                res.assumptions.append(a)
        if o["error"] and o["error"].startswith("crash"):
            raise RuntimeError(f"pyvc worker crashed on {key}:\n{o['error']}")
        if o["error"]:
            # stale contract / construct left the subset: the deductive layer cannot speak for this function
            res.functions_not_under_contract.append({"function": key, "reason": "deductive layer not re-established: " + o["error"]})
            res.obligations.append(Obligation(f"{key}#generate", key, "VC generation for this function", UNDECIDED, reason=o["error"]))
            # not an alarm (a harmless refactoring may leave the subset): the verdict for this contract rests on its
            # native monitor (below) and on the property's bounded stand-ins, which always run
            if o["cross"] is not None:
                cr = o["cross"]
                res.standins.append(StandIn(contract=f"native monitor of {key}", tier="T3", bound=f"{cr['evaluations']} seeded random inputs satisfying requires", evaluations=cr["evaluations"], distinct_nontrivial=cr["distinct"], samples=cr["samples"], notes="stand-in while the deductive layer is not re-established"))
                for f in cr["fails"]:
                    res.violations.append(Violation(signature=f"{prop}:T3:{key}:native-monitor", what=f"native contract monitor of {key} failed: {f['observed']}", input={"contract": key, "input_repr": f["input_repr"], "seed": ctx.seed, "n": cr["evaluations"]}, contract="native monitor", observed=f["observed"], tier="T3"))
            continue
        res.functions_under_contract.append(o["info"])
        obs = o["obligations"]
        real = [x for x in obs if not x["canary"]]
        if not real:
            res.self_check_failures.append(f"{key}: zero obligations generated")
        # canaries: each must be refuted (or at least not proved) on some path
        by_canary: dict[str, list[str]] = {}
        for x in obs:
            if x["canary"]:
                by_canary.setdefault(x["name"].split("@")[0], []).append(x["status"])
        for cn, sts in by_canary.items():
            if all(s == HELD for s in sts):
                res.self_check_failures.append(f"canary {cn} was PROVED: contract of {key} is vacuous or the generator is unsound")
            merged = VIOLATED if VIOLATED in sts else UNDECIDED
            res.obligations.append(Obligation(cn, key, "canary (deliberately false clause) must not be provable", merged, canary=True))
        all_held = True
        viol_by_ob = {v["obligation"]: v for v in o["violations"]}
        # The sidecar contract (loop invariants by loop ordinal, callee contracts) was written against a particular loop / call
        # structure of the function.  If that structure is no longer the one the baseline was established with, the invariants
        # belong to another program text: an obligation that fails then says "the proof has to be redone", not "the code is
        # wrong".  Only a counterexample that REPLAYS on the real function is still reported; the native monitor and the
        # property's bounded stand-ins carry the verdict meanwhile.
        restructured = key in baseline and baseline_structure.get(key) is not None and o.get("structure") is not None and o["structure"] != baseline_structure[key]
        spoken = spoken_fields(reg)
        for x in real:
            # a frame obligation about a field that no contract clause mentions cannot carry any property: a new write to
            # such a field (e.g. a new bookkeeping attribute) is recorded, not reported
            if x["status"] != HELD and x["kind"] == "frame":
                import re as _re

                mm = _re.search(r"frame\[f\.([A-Za-z_0-9]+)", x["name"])
                if mm and mm.group(1) not in spoken:
                    res.obligations.append(Obligation(x["name"], key, x["clause"], UNDECIDED, x["backend"], x["ms"], None, "frame of a field no contract speaks about: not a property-carrying obligation"))
                    res.extra.setdefault("frame_of_unspoken_fields", []).append(x["name"])
                    continue
            res.obligations.append(Obligation(x["name"], key, x["clause"], x["status"], x["backend"], x["ms"], x["model"], x["reason"]))
            if x["status"] == HELD:
                continue
            all_held = False
            v = viol_by_ob.get(x["name"])
            sig = f"{prop}:T1:{x['name'].split('@')[0].split('~')[0]}"
            if x["status"] == VIOLATED and v is not None and v["reproduced"]:
                res.violations.append(Violation(signature=sig, what=f"obligation {x['name']} refuted; counterexample reproduces on the real function: {v['observed']}", input={"contract": key, "args": v["input"]}, obligation=x["name"], contract=x["clause"], observed=v["observed"], solver_output=x["model"], tier="T1"))
            elif restructured:
                was, now = baseline_structure[key], o["structure"]
                diff = "; ".join(f"{k}: {was.get(k)} -> {now.get(k)}" for k in ("loops", "comprehensions", "calls") if was.get(k) != now.get(k))
                res.obligations[-1].status = UNDECIDED
                res.obligations[-1].reason = f"proof not re-established: the function was restructured since its sidecar contract was written ({diff[:400]}); no counterexample replays on the real code"
                if key not in [f["function"] for f in res.functions_not_under_contract]:
                    res.functions_not_under_contract.append({"function": key, "reason": "restructured since the sidecar contract was written (" + diff[:300] + "): deductive layer not re-established, native monitor / bounded stand-ins decide"})
            elif key in baseline and x["status"] == UNDECIDED and o.get("vc_digest") and baseline_digest.get(key) == o["vc_digest"]:
                # the formulas of this contract are, character by character, the ones that were discharged on the baseline
                # tree (same code, same contract, same encoding): the solver running out of budget on them says nothing
                # about the code.  Recorded as undecided, never reported.
                res.obligations[-1].reason = (x["reason"] or "") + " [formula identical to the one discharged on the baseline tree: solver budget, not a change of the code]"
                res.extra.setdefault("budget_exhausted_on_unchanged_formulas", []).append(x["name"])
            elif key in baseline:
                why = "refuted by the solver" if x["status"] == VIOLATED else f"no longer discharged ({x['reason']})"
                res.violations.append(Violation(signature=sig, what=f"obligation {x['name']} ({x['clause'][:120]}) was discharged on the baseline tree and is now {why}", input={"contract": key, "args": v["input"] if v else None}, obligation=x["name"], contract=x["clause"], observed=(v or {}).get("observed"), solver_output=x["model"] or x["reason"], failing_input_found=False, tier="T1"))
        if all_held:
            fully.append(key)
        if o["cross"] is not None:
            cr = o["cross"]
            res.standins.append(StandIn(contract=f"native monitor of {key}", tier="T3", bound=f"{cr['evaluations']} seeded random inputs satisfying requires", evaluations=cr["evaluations"], distinct_nontrivial=cr["distinct"], samples=cr["samples"], notes="CPython cross-check of the contract and of the encoding"))
            for f in cr["fails"]:
                res.violations.append(Violation(signature=f"{prop}:T3:{key}:native-monitor", what=f"native contract monitor of {key} failed: {f['observed']}", input={"contract": key, "input_repr": f["input_repr"], "seed": ctx.seed, "n": o["cross"]["evaluations"]}, contract="native monitor", observed=f["observed"], tier="T3"))
    res.extra["contracts_serving_this_property_verified_by_other_checks"] = sorted(
        f"{k} (verified by ./check {c.properties[0]})" for k, c in reg.contracts.items() if prop in c.properties[1:] and not c.trusted
    )
    res.extra["t1_fully_discharged"] = fully
    res.extra["t1_vc_digest"] = {o["key"]: o.get("vc_digest") for o in outs if o["key"] in fully and o.get("vc_digest")}
    res.extra["t1_structure"] = {o["key"]: o.get("structure") for o in outs if o["key"] in fully and o.get("structure")}
    res.extra["t1_baseline_fully_discharged"] = sorted(baseline & set(keys))
    return res


def spoken_fields(reg) -> set:
    """Field names that occur in some contract clause, invariant, modifies entry or spec function of the registry."""
    import re as _re

    texts = []
    for c in reg.contracts.values():
        texts += c.requires + c.ensures + c.canaries + c.modifies + [r.when for r in c.raises]
        for ls in c.loops.values():
            texts += ls.invariants + ([ls.decreases] if ls.decreases else [])
        if c.lemma_src:
            texts.append(c.lemma_src)
    texts += [e for _, e in reg.spec_fns.values()]
    out = set()
    for t in texts:
        out |= set(_re.findall(r"\.([A-Za-z_][A-Za-z_0-9]*)", t))
    return out


def replay_t1(modules: list[str], record: dict) -> bool:
    """Re-run a recorded T1 violation: rebuild the input and run the native monitor; or re-run the obligation."""
    from pyvc.concretize import build_args

    natives = load_natives(modules)
    inp = record.get("input") or {}
    key = inp.get("contract")
    if key and inp.get("args") is not None and key in natives and natives[key].get("monitor"):
        try:
            msg = natives[key]["monitor"](build_args(inp["args"]))
        except Exception as e:
            msg = f"{type(e).__name__}: {e}"
        print("replay on the real function:", msg)
        if msg is not None:
            return True
    if key and "input_repr" in inp and key in natives and natives[key].get("gen"):
        import random

        rng = random.Random(f"{inp.get('seed', 0)}:{key}")
        for _ in range(int(inp.get("n", 3000)) * 10):
            args_ = natives[key]["gen"](rng)
            if natives[key].get("repr", repr)(args_)[:2000] == inp["input_repr"]:
                try:
                    msg = natives[key]["monitor"](args_)
                except Exception as e:
                    msg = f"{type(e).__name__}: {e}"
                print("replay on the real function:", msg)
                return msg is not None
        print("recorded input was not regenerated")
        return False
    # re-run the obligation itself
    if key:
        class _C:
            repo = os.environ.get("VERIF_REPO", "/repo")
            seed = 0

        o = _work((modules, key, _C.repo, 10000, 0, 0))
        name = record.get("obligation")
        for x in o["obligations"]:
            if x["name"] == name:
                print(f"obligation {name}: {x['status']} {x['reason']}")
                return x["status"] != HELD
        print("obligation no longer generated:", o["error"])
        return o["error"] is not None
    return False
