"""Static type hints used to choose an encoding (never a proof obligation by themselves)."""
from __future__ import annotations

import ast
from dataclasses import dataclass


@dataclass(frozen=True)
class Ty:
    k: str  # int bool str none any opt list dict tuple vtuple obj sub union
    a: tuple = ()

    def __str__(self) -> str:
        if self.k in ("int", "bool", "str", "none", "any"):
            return self.k
        if self.k == "opt":
            return f"{self.a[0]}|None"
        if self.k == "obj":
            return self.a[0]
        if self.k == "sub":
            return f"Sub[{self.a[0]}]"
        return f"{self.k}[{', '.join(str(x) for x in self.a)}]"


INT, BOOL, STR, NONE, ANY = Ty("int"), Ty("bool"), Ty("str"), Ty("none"), Ty("any")


def opt(t: Ty) -> Ty:
    if t.k in ("opt", "none", "any"):
        return t
    return Ty("opt", (t,))


def lst(t: Ty) -> Ty:
    return Ty("list", (t,))


def dct(k: Ty, v: Ty) -> Ty:
    return Ty("dict", (k, v))


def obj(c: str) -> Ty:
    return Ty("obj", (c,))


def sub(c: str) -> Ty:
    return Ty("sub", (c,))


def strip_opt(t: Ty) -> Ty:
    return t.a[0] if t.k == "opt" else t


def class_of(t: Ty) -> str | None:
    t = strip_opt(t)
    if t.k in ("obj", "sub"):
        return t.a[0]
    return None


CLASS_LCA = None  # set by the engine: least common ancestor of two repo classes


def join(a: Ty, b: Ty) -> Ty:
    if a == b:
        return a
    if a.k == "none":
        return opt(b)
    if b.k == "none":
        return opt(a)
    if a.k == "opt" or b.k == "opt":
        j = join(strip_opt(a), strip_opt(b))
        return opt(j)
    if a.k in ("obj", "sub") and b.k in ("obj", "sub"):
        if a.a[0] == b.a[0]:
            return sub(a.a[0])
        if CLASS_LCA is not None:
            c = CLASS_LCA(a.a[0], b.a[0])
            if c is not None:
                return sub(c)
        return ANY
    if a.k == b.k and a.k in ("list", "vtuple") :
        return Ty(a.k, (join(a.a[0], b.a[0]),))
    if a.k == b.k == "dict":
        return Ty("dict", (join(a.a[0], b.a[0]), join(a.a[1], b.a[1])))
    if {a.k, b.k} == {"int", "bool"}:
        return INT
    return ANY


def parse_type(node: ast.expr | str | None, known_classes: set[str] | None = None) -> Ty:
    known_classes = known_classes or set()
    if node is None:
        return ANY
    if isinstance(node, str):
        try:
            node = ast.parse(node, mode="eval").body
        except SyntaxError:
            return ANY
    if isinstance(node, ast.Constant):
        if node.value is None:
            return NONE
        if isinstance(node.value, str):
            return parse_type(node.value, known_classes)
        return ANY
    if isinstance(node, ast.Name):
        n = node.id
        if n == "int":
            return INT
        if n == "bool":
            return BOOL
        if n == "str":
            return STR
        if n == "None":
            return NONE
        if n in ("Any", "object"):
            return ANY
        if n in ("list", "List"):
            return lst(ANY)
        if n in ("dict", "Dict"):
            return dct(ANY, ANY)
        if n in known_classes:
            return obj(n)
        return ANY
    if isinstance(node, ast.Attribute):
        # e.g. SsbOpParamFixedPoint.NegativeZero, ExplorerScriptParser.StartContext
        full = _dotted(node)
        if full in known_classes:
            return obj(full)
        if node.attr in known_classes:
            return obj(node.attr)
        return ANY
    if isinstance(node, ast.BinOp) and isinstance(node.op, ast.BitOr):
        l, r = parse_type(node.left, known_classes), parse_type(node.right, known_classes)
        if l.k == "none":
            return opt(r)
        if r.k == "none":
            return opt(l)
        return join(l, r)
    if isinstance(node, ast.Subscript):
        base = node.value
        bname = base.id if isinstance(base, ast.Name) else (base.attr if isinstance(base, ast.Attribute) else "")
        args = node.slice.elts if isinstance(node.slice, ast.Tuple) else [node.slice]
        if bname in ("list", "List", "MutableSequence", "Sequence", "Iterable"):
            return lst(parse_type(args[0], known_classes))
        if bname in ("dict", "Dict", "Mapping", "MutableMapping"):
            return dct(parse_type(args[0], known_classes), parse_type(args[1], known_classes) if len(args) > 1 else ANY)
        if bname in ("tuple", "Tuple"):
            if len(args) == 2 and isinstance(args[1], ast.Constant) and args[1].value is Ellipsis:
                return Ty("vtuple", (parse_type(args[0], known_classes),))
            return Ty("tuple", tuple(parse_type(a, known_classes) for a in args))
        if bname == "Optional":
            return opt(parse_type(args[0], known_classes))
        if bname == "Union":
            t = parse_type(args[0], known_classes)
            for a in args[1:]:
                t = join(t, parse_type(a, known_classes))
            return t
        if bname == "Sub":
            inner = args[0]
            n = inner.id if isinstance(inner, ast.Name) else _dotted(inner)
            return sub(n)
        if bname == "type":
            return ANY
        return ANY
    return ANY


def _dotted(node: ast.expr) -> str:
    if isinstance(node, ast.Name):
        return node.id
    if isinstance(node, ast.Attribute):
        return _dotted(node.value) + "." + node.attr
    return "?"
