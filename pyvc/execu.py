"""Statement / expression execution with effects (exec mode) on top of engine.Engine."""
from __future__ import annotations

import ast
from typing import Any

import z3

from pyvc import types as T
from pyvc.engine import (
    Engine, SpecEval, St, SV, Out, VC, Unsupported, V, IntS, BoolS, StrS, ArrIV, NONE_SV,
    mk_int, mk_bool, mk_str, as_i, as_b, as_s, as_r, fresh, cls_of, int_str, parse_int, str_count_nl, opaque_str,
    heap_sort, _fresh,
)
from pyvc.source import ClassInfo
from pyvc.spec import Contract, LoopSpec
from pyvc.types import Ty

NOOP_CALL_PREFIXES = ("logger.", "logging.", "warnings.")


def det_simplify(t):
    """z3.simplify orders the arguments of and/or by internal ids that differ from run to run; only its verdict
    true/false is used, the formula itself stays as generated (so that a contract's obligations are the same text every run)."""
    ts = z3.simplify(t)
    if z3.is_true(ts) or z3.is_false(ts):
        return ts
    return t


class Executor(Engine):
    # ------------------------------------------------------------------ module-level names
    def module_imports(self, module: str) -> dict[str, tuple[str, str]]:
        if module in self.imports:
            return self.imports[module]
        tab: dict[str, tuple[str, str]] = {}
        tree = self.repo.load(module)
        for node in tree.body:
            if isinstance(node, ast.ImportFrom) and node.module and node.module.startswith("explorerscript"):
                for a in node.names:
                    tab[a.asname or a.name] = (node.module, a.name)
        self.imports[module] = tab
        return tab

    def module_const(self, name: str) -> SV | None:
        """Module-level constants of simple literal form (OP_JUMP = "Jump", NUMBER_OF_SPACES_PER_INDENT = 4, lists of them)."""
        mod = self.cur_module
        seen = 0
        while seen < 5:
            seen += 1
            if mod not in self.repo.module_consts:
                try:
                    self.repo.load(mod)
                except (FileNotFoundError, OSError):
                    return None
            consts = self.repo.module_consts.get(mod, {})
            if name in consts:
                return self.const_expr(consts[name], mod)
            imp = self.module_imports(mod)
            if name in imp:
                mod, name = imp[name]
                continue
            return None
        return None

    def const_expr(self, node: ast.expr, mod: str) -> SV | None:
        if isinstance(node, ast.Constant):
            v = node.value
            if isinstance(v, bool):
                return SV(mk_bool(v), T.BOOL)
            if isinstance(v, int):
                return SV(mk_int(v), T.INT)
            if isinstance(v, str):
                return SV(mk_str(v), T.STR)
            if v is None:
                return NONE_SV
        if isinstance(node, ast.Name):
            saved = self.cur_module
            self.cur_module = mod
            try:
                return self.module_const(node.id)
            finally:
                self.cur_module = saved
        return None

    def const_collection(self, name: str) -> list[SV] | None:
        """Module-level list/tuple/set/dict-keys constant of literals (OPS_THAT_END_CONTROL_FLOW, OPS_CTX, ...), resolved
        through `+` of other such constants."""
        mod = self.cur_module
        for _ in range(5):
            self.repo.load(mod)
            consts = self.repo.module_consts.get(mod, {})
            if name in consts:
                return self._coll(consts[name], mod)
            imp = self.module_imports(mod)
            if name in imp:
                mod, name = imp[name]
                continue
            return None
        return None

    def runtime_const(self, name: str):
        """Ground truth for module-level constants the AST evaluator cannot fold (e.g. dicts completed by .update()):
        the value the real module has after import."""
        import importlib

        mod = self.cur_module
        for _ in range(5):
            try:
                m = importlib.import_module(mod)
            except Exception:
                return None
            if hasattr(m, name):
                return getattr(m, name)
            imp = self.module_imports(mod)
            if name in imp:
                mod, name = imp[name]
                continue
            return None
        return None

    def const_dict_lookup(self, name: str, k: SV, st: St):
        """(key-present condition, value) for a module-level constant dict of literals; None if `name` is not one."""
        rv = self.runtime_const(name)
        if not (isinstance(rv, dict) and rv and all(self.lit(a) is not None and self.lit(b) is not None for a, b in rv.items())):
            return None
        self.assumptions_used.add("module-level constant collections are read from the imported /repo module (their run-time value)")
        items = [(self.lit(a), self.lit(b)) for a, b in rv.items()]
        ok = z3.Or([self.eq(k, a, st) for a, _ in items])
        term, ty = items[-1][1].term, items[-1][1].ty
        for a, b in reversed(items[:-1]):
            term = z3.If(self.eq(k, a, st), b.term, term)
            ty = T.join(ty, b.ty)
        return ok, SV(term, ty)

    def const_members(self, name: str):
        rv = self.runtime_const(name)
        if isinstance(rv, (list, tuple, set, frozenset, dict)):
            coll = [self.lit(x) for x in (sorted(rv, key=repr) if isinstance(rv, (set, frozenset)) else list(rv))]
            if all(c is not None for c in coll):
                self.assumptions_used.add("module-level constant collections are read from the imported /repo module (their run-time value)")
                return coll
        return self.const_collection(name)

    def lit(self, v) -> SV | None:
        if isinstance(v, bool):
            return SV(mk_bool(v), T.BOOL)
        if isinstance(v, int):
            return SV(mk_int(v), T.INT)
        if isinstance(v, str):
            return SV(mk_str(v), T.STR)
        if v is None:
            return NONE_SV
        return None

    def _coll(self, node, mod) -> list[SV] | None:
        if isinstance(node, (ast.List, ast.Tuple, ast.Set)):
            out = []
            for e in node.elts:
                v = self.const_expr(e, mod)
                if v is None:
                    return None
                out.append(v)
            return out
        if isinstance(node, ast.Dict):
            out = []
            for e in node.keys:
                v = self.const_expr(e, mod)
                if v is None:
                    return None
                out.append(v)
            return out
        if isinstance(node, ast.BinOp) and isinstance(node.op, ast.Add):
            a, b = self._coll(node.left, mod), self._coll(node.right, mod)
            if a is None or b is None:
                return None
            return a + b
        if isinstance(node, ast.Name):
            saved = self.cur_module
            self.cur_module = mod
            try:
                return self.const_collection(node.id)
            finally:
                self.cur_module = saved
        return None

    # ------------------------------------------------------------------ arithmetic
    def binop(self, op, a: SV, b: SV, st: St, pure: bool = False) -> SV:
        ta, tb = T.strip_opt(a.ty).k, T.strip_opt(b.ty).k
        if ta == "str" and tb == "str" and isinstance(op, ast.Add):
            return SV(mk_str(z3.Concat(as_s(a.term), as_s(b.term))), T.STR)
        if ta == "str" and isinstance(op, ast.Mult) and tb == "int":
            # " " * n : opaque but length-determined string of blanks; count_nl == 0 when the literal has no newline
            if z3.is_string_value(as_s(a.term)) and "\n" not in as_s(a.term).as_string():
                s = fresh("rep", StrS)
                st.pc = st.pc + (str_count_nl(s) == 0,)
                return SV(mk_str(s), T.STR)
            raise Unsupported("str * int")
        if ta in ("list", "tuple", "vtuple") and tb in ("list", "tuple", "vtuple") and isinstance(op, ast.Add):
            if pure:
                raise Unsupported("list + list in spec")
            return self.list_concat(st, a, b)
        if not pure:
            for x in (a, b):
                if x.ty.k != "int":
                    self.emit(f"L{self.cur_line}.int-operand", "operand of arithmetic is an int (else TypeError)", st, V.is_intv(x.term), "safety", self.cur_line)
                    st.pc = st.pc + (V.is_intv(x.term),)
        ia, ib = as_i(a.term), as_i(b.term)
        if isinstance(op, ast.Add):
            return SV(mk_int(ia + ib), T.INT)
        if isinstance(op, ast.Sub):
            return SV(mk_int(ia - ib), T.INT)
        if isinstance(op, ast.Mult):
            return SV(mk_int(ia * ib), T.INT)
        if isinstance(op, ast.FloorDiv):
            if not pure:
                self.emit(f"L{self.cur_line}.div0", "divisor is non-zero (else ZeroDivisionError)", st, ib != 0, "safety", self.cur_line)
            # python floor division == z3 div for positive divisor; general case:
            q = z3.If(ib > 0, ia / ib, -((-ia) / (-ib)) if False else z3.If(ia % ib == 0, ia / ib, ia / ib))  # placeholder refined below
            q = z3.If(ib > 0, ia / ib, (-ia) / (-ib))
            return SV(mk_int(q), T.INT)
        if isinstance(op, ast.Mod):
            if not pure:
                self.emit(f"L{self.cur_line}.mod0", "modulus is non-zero", st, ib != 0, "safety", self.cur_line)
            m = z3.If(ib > 0, ia % ib, -((-ia) % (-ib)))
            return SV(mk_int(m), T.INT)
        raise Unsupported("binary operator " + type(op).__name__)

    def list_concat(self, st: St, a: SV, b: SV) -> SV:
        r = self.alloc_ref(st, None)
        la, lb = self.list_len(st, a), self.list_len(st, b)
        arr = fresh("cat", ArrIV)
        j = z3.Const(f"j!cat{next(_fresh)}", IntS)
        ea = z3.Select(st.h("lel"), as_r(a.term))
        eb = z3.Select(st.h("lel"), as_r(b.term))
        st.pc = st.pc + (
            z3.ForAll([j], z3.Implies(z3.And(0 <= j, j < la), z3.Select(arr, j) == z3.Select(ea, j))),
            z3.ForAll([j], z3.Implies(z3.And(0 <= j, j < lb), z3.Select(arr, la + j) == z3.Select(eb, j))),
        )
        st.heap["llen"] = z3.Store(st.h("llen"), r, la + lb)
        st.heap["lel"] = z3.Store(st.h("lel"), r, arr)
        return SV(V.ref(r), T.lst(T.join(self.elem_type(a.ty), self.elem_type(b.ty))))

    def pure_property(self, p, o: SV, st: St, entry) -> SV:
        ci, fn = p
        body = [s for s in fn.body if not (isinstance(s, ast.Expr) and isinstance(s.value, ast.Constant))]
        loc = {fn.args.args[0].arg: o}
        spec = SpecEval(self, st, loc, entry, cur_class=ci)
        # shapes: [assert X is not None;] return <expr>
        for s in body:
            if isinstance(s, ast.Assert):
                continue
            if isinstance(s, ast.Return):
                v = spec.value(s.value)
                rt = self.ty(fn.returns)
                if rt.k != "any":
                    v = SV(v.term, rt)
                return v
            raise Unsupported(f"property {ci.name}.{fn.name} is not a pure return")
        raise Unsupported("property without return")

    # ------------------------------------------------------------------ expressions (exec mode, may branch)
    cur_line = 0

    def ev(self, n: ast.expr, st: St) -> list[tuple[St, SV]]:
        """Evaluate with effects. Returns the normal continuations; exceptional ones are appended to self.raised."""
        self.cur_line = getattr(n, "lineno", self.cur_line)
        if isinstance(n, ast.Constant):
            return [(st, SpecEval(self, st, st.loc, st.entry)._val(n))] if not isinstance(n.value, (float, bytes)) else self._unsup(n)
        if isinstance(n, ast.Name):
            if n.id in st.loc:
                return [(st, st.loc[n.id])]
            c = self.module_const(n.id)
            if c is not None:
                return [(st, c)]
            raise Unsupported(f"name {n.id}")
        if isinstance(n, ast.JoinedStr):
            s = fresh("fstr", StrS)
            return [(st, SV(mk_str(s), T.STR))]
        if isinstance(n, ast.Attribute):
            return self.ev_attr(n, st)
        if isinstance(n, ast.Subscript):
            return self.ev_subscript(n, st)
        if isinstance(n, ast.BoolOp):
            return self.ev_boolop(n, st)
        if isinstance(n, ast.UnaryOp):
            out = []
            for s1, a in self.ev(n.operand, st):
                if isinstance(n.op, ast.Not):
                    out.append((s1, SV(mk_bool(z3.Not(self.truthy(a, s1))), T.BOOL)))
                elif isinstance(n.op, ast.USub):
                    out.append((s1, SV(mk_int(-as_i(a.term)), T.INT)))
                else:
                    raise Unsupported("unary op")
            return out
        if isinstance(n, ast.BinOp):
            out = []
            for s1, a in self.ev(n.left, st):
                for s2, b in self.ev(n.right, s1):
                    s2 = s2.copy()
                    out.append((s2, self.binop(n.op, a, b, s2)))
            return out
        if isinstance(n, ast.Compare):
            return self.ev_compare(n, st)
        if isinstance(n, ast.IfExp):
            out = []
            for s1, c in self.ev(n.test, st):
                t = self.truthy(c, s1)
                out += self.ev(n.body, s1.assume(t))
                out += self.ev(n.orelse, s1.assume(z3.Not(t)))
            return out
        if isinstance(n, (ast.List, ast.Tuple)):
            outs = [(st, [])]
            for e in n.elts:
                if isinstance(e, ast.Starred):
                    raise Unsupported("starred element")
                nxt = []
                for s1, acc in outs:
                    for s2, v in self.ev(e, s1):
                        nxt.append((s2, acc + [v]))
                outs = nxt
            res = []
            for s1, vals in outs:
                s1 = s1.copy()
                if isinstance(n, ast.Tuple):
                    ty = Ty("tuple", tuple(v.ty for v in vals))
                else:
                    et = T.ANY
                    if vals:
                        et = vals[0].ty
                        for v in vals[1:]:
                            et = T.join(et, v.ty)
                    ty = T.lst(et)
                res.append((s1, self.new_list(s1, vals, ty)))
            return res
        if isinstance(n, ast.Dict):
            outs = [(st, [])]
            for k, v in zip(n.keys, n.values):
                if k is None:
                    raise Unsupported("dict unpacking")
                nxt = []
                for s1, acc in outs:
                    for s2, kv in self.ev(k, s1):
                        for s3, vv in self.ev(v, s2):
                            nxt.append((s3, acc + [(kv, vv)]))
                outs = nxt
            res = []
            for s1, kvs in outs:
                s1 = s1.copy()
                kt, vt = T.ANY, T.ANY
                if kvs:
                    kt, vt = kvs[0][0].ty, kvs[0][1].ty
                    for a, b in kvs[1:]:
                        kt, vt = T.join(kt, a.ty), T.join(vt, b.ty)
                d = self.new_dict(s1, T.dct(kt, vt))
                for a, b in kvs:
                    self.dict_store(s1, d, a.term, b.term)
                res.append((s1, d))
            return res
        if isinstance(n, ast.Call):
            return self.ev_call(n, st)
        if isinstance(n, (ast.ListComp, ast.DictComp)):
            from pyvc.comp import ev_comprehension

            return ev_comprehension(self, n, st)
        raise Unsupported("expression " + type(n).__name__ + ": " + ast.unparse(n)[:60])

    def _unsup(self, n):
        raise Unsupported("expression " + ast.unparse(n)[:60])

    def raise_exc(self, st: St, exc: str) -> None:
        self.raised.append(Out("raise", st, exc))

    def ev_attr(self, n: ast.Attribute, st: St):
        # module constant via class/module attribute (SsbOpParamFixedPoint.NegativeZero etc. unsupported)
        if isinstance(n.value, ast.Name) and n.value.id not in st.loc:
            c = self.module_const(ast.unparse(n))
            if c is not None:
                return [(st, c)]
            if n.value.id in self.repo.classes:
                ci = self.repo.classes[n.value.id]
                if n.attr in ci.class_attrs:
                    c = self.const_expr(ci.class_attrs[n.attr], ci.module)
                    if c is not None:
                        return [(st, c)]
            raise Unsupported("attribute of non-local " + ast.unparse(n))
        out = []
        for s1, o in self.ev(n.value, st):
            s1 = s1.copy()
            if o.ty.k == "opt":
                self.emit(f"L{n.lineno}.attr-none", f"`{ast.unparse(n.value)}` is not None when `.{n.attr}` is read (else AttributeError)", s1, z3.Not(V.is_none(o.term)), "safety", n.lineno)
                s1.pc = s1.pc + (z3.Not(V.is_none(o.term)),)
                o = SV(o.term, o.ty.a[0])
            cname = T.class_of(o.ty)
            if cname is None:
                raise Unsupported(f"attribute .{n.attr} on value of type {o.ty} ({ast.unparse(n)})")
            prop = self.repo.find_property(cname, n.attr)
            owner = cname
            if prop is None and not self.class_has_field(cname, n.attr):
                # maybe defined in exactly one subclass family
                cands = [c for c in self.repo.subclasses(cname) if self.repo.find_property(c, n.attr) or self.class_has_field(c, n.attr)]
                roots = [c for c in cands if not any(o2 != c and self.repo.is_subclass(c, o2) for o2 in cands)]
                if len(roots) > 1 and not any(self.repo.find_property(c, n.attr) for c in cands):
                    # a plain field declared by several unrelated subclasses (e.g. `.label` of SsbLabelJump and of
                    # SsbForeignLabel): the heap component is per field name, so the read is the same for all of them
                    g = z3.Or([self.is_instance(o.term, c) for c in roots])
                    self.emit(f"L{n.lineno}.attr-class", f"`{ast.unparse(n.value)}` is one of {', '.join(sorted(roots))} when `.{n.attr}` is read (else AttributeError)", s1, g, "safety", n.lineno)
                    s1.pc = s1.pc + (g,)
                    fty = self.field_type(roots[0], n.attr)
                    for c in roots[1:]:
                        fty = T.join(fty, self.field_type(c, n.attr))
                    out.append((s1, self.field_read(s1, o.term, n.attr, fty)))
                    continue
                if len(roots) != 1:
                    raise Unsupported(f"attribute {n.attr} not found on {cname}")
                owner = roots[0]
                g = self.is_instance(o.term, owner)
                self.emit(f"L{n.lineno}.attr-class", f"`{ast.unparse(n.value)}` is a {owner} when `.{n.attr}` is read (else AttributeError)", s1, g, "safety", n.lineno)
                s1.pc = s1.pc + (g,)
                o = SV(o.term, T.sub(owner))
                prop = self.repo.find_property(owner, n.attr)
            if prop is not None:
                for s2, v in self.call_function(prop[0], prop[1], [o], {}, s1, n.lineno, f"{prop[0].name}.{n.attr}"):
                    out.append((s2, v))
            else:
                out.append((s1, self.field_read(s1, o.term, n.attr, self.field_type(owner, n.attr))))
        return out

    def class_has_field(self, cname: str, fld: str) -> bool:
        for c in self.repo.mro(cname):
            ci = self.repo.classes[c]
            if fld in ci.annotations or fld in ci.class_attrs or f"{c}.{fld}" in self.reg.field_types:
                return True
            for m in ci.methods.values():
                for node in ast.walk(m):
                    if isinstance(node, ast.Attribute) and isinstance(node.ctx, ast.Store) and isinstance(node.value, ast.Name) and node.value.id == "self" and node.attr == fld:
                        return True
        return False

    def in_try_catching(self, exc: str) -> bool:
        for handlers in self.try_stack:
            for h in handlers:
                if h in (exc, "Exception", "BaseException", "") or (h == "LookupError" and exc in ("IndexError", "KeyError")):
                    return True
        return False

    def implicit_raise(self, st: St, ok, exc: str, name: str, clause: str, line: int) -> St:
        """`ok` must hold or `exc` is raised. Returns the continuing state (with ok assumed)."""
        allowed = self.in_try_catching(exc) or any(r.exc == exc for r in (self.cur_contract.raises if self.cur_contract else []))
        if allowed:
            bad = st.assume(z3.Not(ok))
            self.raise_exc(bad, exc)
        else:
            self.emit(name, clause, st, ok, "safety", line)
        return st.assume(ok)

    def ev_subscript(self, n: ast.Subscript, st: St):
        out = []
        if isinstance(n.value, ast.Name) and n.value.id not in st.loc:
            rv = self.runtime_const(n.value.id)
            if isinstance(rv, dict) and all(self.lit(k) is not None and self.lit(v) is not None for k, v in rv.items()):
                self.assumptions_used.add("module-level constant collections are read from the imported /repo module (their run-time value)")
                for s1, k in self.ev(n.slice, st):
                    items = [(self.lit(a), self.lit(b)) for a, b in rv.items()]
                    ok = z3.Or([self.eq(k, a, s1) for a, _ in items]) if items else z3.BoolVal(False)
                    s1 = self.implicit_raise(s1.copy(), ok, "KeyError", f"L{n.lineno}.constkey", f"key is in {n.value.id} (else KeyError)", n.lineno)
                    term = items[-1][1].term
                    ty = items[-1][1].ty
                    for a, b in reversed(items[:-1]):
                        term = z3.If(self.eq(k, a, s1), b.term, term)
                        ty = T.join(ty, b.ty)
                    out.append((s1, SV(term, ty)))
                return out
        for s1, c in self.ev(n.value, st):
            ct = T.strip_opt(c.ty)
            if c.ty.k == "opt":
                s1 = self.implicit_raise(s1, z3.Not(V.is_none(c.term)), "TypeError", f"L{n.lineno}.sub-none", f"`{ast.unparse(n.value)}` is not None when subscripted", n.lineno)
            if isinstance(n.slice, ast.Slice):
                out += self.ev_slice(n, s1, c)
                continue
            for s2, k in self.ev(n.slice, s1):
                s2 = s2.copy()
                if ct.k == "dict":
                    s2 = self.implicit_raise(s2, self.dict_has(s2, c, k.term), "KeyError", f"L{n.lineno}.key", f"key `{ast.unparse(n.slice)}` is in `{ast.unparse(n.value)}` (else KeyError)", n.lineno)
                    out.append((s2, self.dict_read(s2, c, k.term, ct.a[1])))
                elif ct.k in ("list", "tuple", "vtuple", "any"):
                    if ct.k == "any":
                        self.assumptions_used.add("subscript on an untyped value is read as a sequence index")
                    idx = as_i(k.term)
                    ln = self.list_len(s2, c)
                    cidx = idx.as_long() if z3.is_int_value(idx) else None
                    if cidx is not None and cidx < 0:
                        ok = ln + cidx >= 0
                        real = ln + cidx
                    elif cidx is not None:
                        ok = cidx < ln
                        real = idx
                    else:
                        ok = z3.And(idx >= -ln, idx < ln)
                        real = z3.If(idx < 0, ln + idx, idx)
                    s2 = self.implicit_raise(s2, ok, "IndexError", f"L{n.lineno}.index", f"index `{ast.unparse(n.slice)}` is within `{ast.unparse(n.value)}` (else IndexError)", n.lineno)
                    out.append((s2, self.list_read(s2, c, real, self.elem_type(ct, cidx))))
                else:
                    raise Unsupported(f"subscript on {c.ty}")
        return out

    def ev_slice(self, n, st, c: SV):
        sl = n.slice
        if sl.step is not None:
            raise Unsupported("slice step")
        outs = [(st, None, None)]
        if sl.lower is not None:
            outs = [(s2, lo, None) for s1, _, _ in outs for s2, lo in self.ev(sl.lower, s1)]
        if sl.upper is not None:
            outs = [(s2, lo, hi) for s1, lo, _ in outs for s2, hi in self.ev(sl.upper, s1)]
        res = []
        for s1, lo, hi in outs:
            s1 = s1.copy()
            ln = self.list_len(s1, c)

            def norm(x, dflt):
                if x is None:
                    return dflt
                i = as_i(x.term)
                i = z3.If(i < 0, z3.If(ln + i < 0, 0, ln + i), z3.If(i > ln, ln, i))
                return i

            a, b = norm(lo, z3.IntVal(0)), norm(hi, ln)
            r = self.alloc_ref(s1, None)
            arr = fresh("slice", ArrIV)
            j = z3.Const(f"j!sl{next(_fresh)}", IntS)
            src = z3.Select(s1.h("lel"), as_r(c.term))
            newlen = z3.If(b > a, b - a, 0)
            s1.pc = s1.pc + (z3.ForAll([j], z3.Implies(z3.And(0 <= j, j < newlen), z3.Select(arr, j) == z3.Select(src, a + j))),)
            s1.heap["llen"] = z3.Store(s1.h("llen"), r, newlen)
            s1.heap["lel"] = z3.Store(s1.h("lel"), r, arr)
            res.append((s1, SV(V.ref(r), T.lst(self.elem_type(c.ty)))))
        return res

    def narrow(self, test: ast.expr, st: St, positive: bool) -> St:
        """Static narrowing of local names by isinstance / is None tests (the logical fact is already in pc)."""
        if isinstance(test, ast.UnaryOp) and isinstance(test.op, ast.Not):
            return self.narrow(test.operand, st, not positive)
        if isinstance(test, ast.BoolOp) and isinstance(test.op, ast.And) and positive:
            for v in test.values:
                st = self.narrow(v, st, True)
            return st
        if isinstance(test, ast.BoolOp) and isinstance(test.op, ast.Or) and not positive:
            for v in test.values:
                st = self.narrow(v, st, False)
            return st
        if isinstance(test, ast.Call) and isinstance(test.func, ast.Name) and test.func.id == "isinstance" and positive:
            a, c = test.args
            if isinstance(a, ast.Name) and a.id in st.loc and isinstance(c, ast.Name) and c.id in self.repo.classes:
                cur = T.class_of(st.loc[a.id].ty)
                if cur is None or (cur != c.id and self.repo.is_subclass(c.id, cur)) or st.loc[a.id].ty.k == "opt":
                    st = st.copy()
                    st.loc[a.id] = SV(st.loc[a.id].term, T.sub(c.id))
            return st
        if isinstance(test, ast.Compare) and len(test.ops) == 1 and isinstance(test.left, ast.Name) and test.left.id in st.loc:
            r = test.comparators[0]
            if isinstance(r, ast.Constant) and r.value is None:
                isnot = isinstance(test.ops[0], ast.IsNot)
                is_ = isinstance(test.ops[0], ast.Is)
                sv = st.loc[test.left.id]
                if sv.ty.k == "opt" and ((isnot and positive) or (is_ and not positive)):
                    st = st.copy()
                    st.loc[test.left.id] = SV(sv.term, sv.ty.a[0])
        return st

    def ev_boolop(self, n: ast.BoolOp, st: St):
        is_and = isinstance(n.op, ast.And)
        results = []
        frontier = [st]
        for idx, v in enumerate(n.values):
            nxt = []
            last = idx == len(n.values) - 1
            for s0 in frontier:
                for s1, a in self.ev(v, s0):
                    if last:
                        results.append((s1, a))
                        continue
                    t = det_simplify(self.truthy(a, s1))
                    if is_and:
                        if not z3.is_true(t):
                            results.append((s1.assume(z3.Not(t)), a))
                        if not z3.is_false(t):
                            nxt.append(self.narrow(v, s1.assume(t), True))
                    else:
                        if not z3.is_false(t):
                            results.append((s1.assume(t), a))
                        if not z3.is_true(t):
                            nxt.append(self.narrow(v, s1.assume(z3.Not(t)), False))
            frontier = nxt
        return results

    def ev_compare(self, n: ast.Compare, st: St):
        if len(n.ops) != 1:
            # a < b < c : evaluate all operands then conjoin
            outs = [(st, [])]
            for e in [n.left] + n.comparators:
                outs = [(s2, acc + [v]) for s1, acc in outs for s2, v in self.ev(e, s1)]
            res = []
            for s1, vals in outs:
                parts = [self.cmp_values(op, vals[i], vals[i + 1], s1, n) for i, op in enumerate(n.ops)]
                res.append((s1, SV(mk_bool(z3.And(parts)), T.BOOL)))
            return res
        op, rn = n.ops[0], n.comparators[0]
        out = []
        if isinstance(op, (ast.In, ast.NotIn)):
            for s1, x in self.ev(n.left, st):
                # containers: dict / list / constant collection / .keys()
                rn_name = rn.id if isinstance(rn, ast.Name) else (rn.func.value.id if isinstance(rn, ast.Call) and isinstance(rn.func, ast.Attribute) and rn.func.attr == "keys" and isinstance(rn.func.value, ast.Name) else None)
                if rn_name is not None and rn_name not in s1.loc:
                    rv = self.runtime_const(rn_name)
                    coll = None
                    if isinstance(rv, (list, tuple, set, frozenset, dict)):
                        coll = [self.lit(x) for x in (sorted(rv, key=repr) if isinstance(rv, (set, frozenset)) else list(rv))]
                        if any(c is None for c in coll):
                            coll = None
                        else:
                            self.assumptions_used.add("module-level constant collections are read from the imported /repo module (their run-time value)")
                    if coll is None:
                        coll = self.const_collection(rn_name)
                    if coll is None:
                        raise Unsupported("`in` on " + rn_name)
                    b = z3.Or([self.eq(x, e, s1) for e in coll]) if coll else z3.BoolVal(False)
                    out.append((s1, SV(mk_bool(z3.Not(b) if isinstance(op, ast.NotIn) else b), T.BOOL)))
                    continue
                if isinstance(rn, ast.Call) and isinstance(rn.func, ast.Attribute) and rn.func.attr == "keys":
                    rn2 = rn.func.value
                else:
                    rn2 = rn
                if isinstance(rn2, (ast.Tuple, ast.List, ast.Set)):
                    cur = [(s1, [])]
                    for e in rn2.elts:
                        cur = [(s3, acc + [v]) for s2, acc in cur for s3, v in self.ev(e, s2)]
                    for s2, vals in cur:
                        b = z3.Or([self.eq(x, e, s2) for e in vals])
                        out.append((s2, SV(mk_bool(z3.Not(b) if isinstance(op, ast.NotIn) else b), T.BOOL)))
                    continue
                for s2, c in self.ev(rn2, s1):
                    spec = SpecEval(self, s2, {"__x": x, "__c": c}, s2.entry)
                    b = spec._contains(ast.Name("__x", ast.Load()), ast.Name("__c", ast.Load()))
                    out.append((s2, SV(mk_bool(z3.Not(b) if isinstance(op, ast.NotIn) else b), T.BOOL)))
            return out
        for s1, a in self.ev(n.left, st):
            for s2, b in self.ev(rn, s1):
                s2 = s2.copy()
                out.append((s2, SV(mk_bool(self.cmp_values(op, a, b, s2, n)), T.BOOL)))
        return out

    def cmp_values(self, op, a: SV, b: SV, st: St, n):
        if isinstance(op, ast.Is):
            return a.term == b.term
        if isinstance(op, ast.IsNot):
            return a.term != b.term
        if isinstance(op, ast.Eq):
            return self.eq(a, b, st)
        if isinstance(op, ast.NotEq):
            return z3.Not(self.eq(a, b, st))
        for x in (a, b):
            if x.ty.k != "int":
                self.emit(f"L{n.lineno}.cmp-int", "operand of ordering comparison is an int (else TypeError)", st, V.is_intv(x.term), "safety", n.lineno)
                st.pc = st.pc + (V.is_intv(x.term),)
        ia, ib = as_i(a.term), as_i(b.term)
        return {ast.Lt: ia < ib, ast.LtE: ia <= ib, ast.Gt: ia > ib, ast.GtE: ia >= ib}[type(op)]
