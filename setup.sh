#!/bin/sh
# Builds the overlay venv (python 3.12 of /venv + z3/cvc5/crosshair/... from the offline wheelhouse).
# Offline; ~15 s; idempotent.
set -e
cd "$(dirname "$0")"
if [ ! -x .venv/bin/python ] || ! .venv/bin/python -c "import z3, jsonschema, explorerscript" 2>/dev/null; then
  rm -rf .venv
  /venv/bin/python -m venv .venv
  PIP_NO_INDEX=1 .venv/bin/pip install -q --no-index --find-links /opt/veriftools/wheels \
      z3-solver cvc5 crosshair-tool deal icontract hypothesis jsonschema
  echo "import site; site.addsitedir('/venv/lib/python3.12/site-packages')" \
      > .venv/lib/python3.12/site-packages/_repo_overlay.pth
fi
.venv/bin/python -c "import z3, jsonschema, explorerscript, igraph, antlr4, pygments; print('setup ok', z3.get_version_string())"
